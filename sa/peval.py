"""Partial evaluator over Python constants and POLY terms, with automatic path enumeration (trace partitioning).

It evaluates straight-line scalar code, tuple/list/dict literals, conditionals and small loops over constant sequences, inlining
repository functions.  Every value is a Python constant, a tuple/list of values, a polynomial normal-form term (sa/poly.P) over named
atoms, or an Opaque object.  A test that cannot be decided from constants forks the evaluation: `paths()` re-runs the function once per
decision sequence, so the result is the list of feasible paths, each with its path condition (normalised test text -> bool), the value
returned (or the fact that it raised), the memory stores and the calls made.  Nothing is executed and atoms never get values.

Used by the rules that compare formulas / dispatch tables with a reference (C06, C08, C12, C13, C15, C16, C18, C20): a refactoring that
moves code between helpers, introduces temporaries, swaps if/elif chains for early returns or dict look-ups leaves the paths unchanged.
"""
import ast
from fractions import Fraction
from .core import norm, dotted
from .poly import P, as_p, sqrt as p_sqrt, floor as p_floor
from .report import Incomplete


class NeedDecision(Exception):
    pass


class Raised(Exception):
    def __init__(self, what):
        self.what = what


class _Return(Exception):
    def __init__(self, value):
        self.value = value


class _Continue(Exception):
    pass


class _Break(Exception):
    pass


class Opaque:
    __slots__ = ('text',)

    def __init__(self, text):
        self.text = text

    def __repr__(self):
        return 'Opaque(%s)' % self.text

    def __eq__(self, o):
        return isinstance(o, Opaque) and o.text == self.text

    def __hash__(self):
        return hash(self.text)


class FStr:
    """an f-string with symbolic parts: a tuple of str / value pieces (adjacent literal pieces merged)"""
    def __init__(self, parts):
        self.parts = tuple(parts)
        self.text = 'f"%s"' % ''.join(p if isinstance(p, str) else '{%s}' % (p.canon() if hasattr(p, 'canon') else getattr(p, 'text', p)) for p in self.parts)

    def __eq__(self, o):
        return isinstance(o, FStr) and len(self.parts) == len(o.parts) and all(a == b for a, b in zip(self.parts, o.parts))

    def __hash__(self):
        return hash(self.text)

    def __repr__(self):
        return self.text


class Vec(list):
    """a NumPy vector of known length (np.broadcast_to(x, n), np.array(tuple)): arithmetic is elementwise, unlike tuple / list"""
    def __repr__(self):
        return 'Vec(%s)' % list.__repr__(self)


class Outcome:
    def __init__(self, kind, value, conds, stores, calls, env, mem):
        self.kind, self.value, self.conds, self.stores, self.calls, self.env, self.mem = kind, value, conds, stores, calls, env, mem

    def cond(self, text, default=None):
        for t, v in self.conds:
            if t == text:
                return v
        return default

    def __repr__(self):
        return 'Outcome(%s, %r, %s)' % (self.kind, self.value, self.conds)


class Inst:
    """an instance of a private helper class of the package (class _Name): attributes in a dict, methods run on it"""
    _n = [0]

    def __init__(self, model, cls):
        self.model, self.pe_cls, self.attrs = model, cls, {}
        Inst._n[0] += 1
        self.pe_id = 500000 + Inst._n[0]
        self.text = '<%s#%d>' % (cls.qualname.split('.')[-1], Inst._n[0])

    def pe_getattr(self, pe, attr):
        if attr in self.attrs:
            return self.attrs[attr]
        m = self.model.find_method(self.pe_cls, attr)
        if m is not None:
            decos = {ast.unparse(d).split('.')[-1] for d in m.node.decorator_list}
            if decos & {'property', 'cached_property'}:
                kind, val, _ = pe._run(m, {m.pos_params[0]: self}, None, 1)
                if kind == 'raise':
                    raise Raised(val)
                return val
            return Bound(m, self, '%s.%s' % (self.text, attr))
        # class-level constants
        for c in self.model.mro(self.pe_cls):
            for st in c.node.body:
                if isinstance(st, ast.Assign) and len(st.targets) == 1 and isinstance(st.targets[0], ast.Name) and st.targets[0].id == attr:
                    return pe.expr(st.value, {}, next(iter(c.methods.values())) if c.methods else None, 0) if c.methods else NotImplemented
        raise Raised('AttributeError(%s)' % attr)

    def pe_hasattr(self, attr):
        return attr in self.attrs or self.model.find_method(self.pe_cls, attr) is not None

    def pe_setattr(self, pe, attr, value, stmt, env, func, depth):
        self.attrs[attr] = value
        return True

    def pe_call_method(self, pe, attr, args, kw, depth, node):
        m = self.model.find_method(self.pe_cls, attr)
        if m is None:
            return NotImplemented
        a = dict(zip(m.pos_params, [self] + list(args)))
        a.update(kw)
        kind, val, _ = pe._run(m, a, None, depth + 1)
        if kind == 'raise':
            raise Raised(val)
        return val

    def pe_isinstance(self, names):
        mine = {c.qualname.split('.')[-1] for c in self.model.mro(self.pe_cls)}
        return any(n.split('.')[-1] in mine for n in names)

    def __repr__(self):
        return self.text


class Sentinel(Opaque):
    """a private module-level marker `_NAME = object()`: an object that is identical to itself and to nothing else"""
    _all = {}

    def __init__(self, qual):
        Opaque.__init__(self, qual)
        self.pe_id = 900000 + len(Sentinel._all)

    @classmethod
    def of(cls, qual):
        if qual not in cls._all:
            cls._all[qual] = cls(qual)
        return cls._all[qual]


class Closure(Opaque):
    """a nested def taken as a value: the function, the environment of its definition (read at call time, as Python does) and the function it was defined in"""
    def __init__(self, name, f, env, owner):
        Opaque.__init__(self, '<closure %s>' % name)
        self.f, self.env, self.owner = f, env, owner


class Partial:
    """functools.partial(callee, *args, **kw) as a value"""
    def __init__(self, callee_node, args, kw, func, env):
        self.callee_node, self.args, self.kw, self.func, self.env = callee_node, list(args), dict(kw), func, env
        self.text = 'partial(%s)' % norm(callee_node)

    def __repr__(self):
        return self.text


class PSet(list):
    """a set value: insertion-ordered list without duplicates (identity for objects, equality for plain values)"""
    def has(self, x):
        return any(y is x or (isinstance(x, (int, str, bool, float, tuple)) and isinstance(y, (int, str, bool, float, tuple)) and x == y) for y in self)

    def add(self, x):
        if not self.has(x):
            self.append(x)


class Lam:
    """a lambda value: the node, the environment it closes over and the function it was written in"""
    def __init__(self, node, env, func):
        self.node, self.env, self.func = node, env, func
        self.text = '<lambda>'

    def __repr__(self):
        return 'Lam(%s)' % norm(self.node)[:60]


class Bound:
    """a method of the package taken as a value (self.register_module): calling it runs the method"""
    def __init__(self, f, recv, text):
        self.f, self.recv, self.text = f, recv, text

    def __repr__(self):
        return 'Bound(%s)' % self.text


def _copy_containers(v):
    """fresh list / dict objects (recursively) so that in-place updates made on one path are not seen by the next"""
    if type(v) is list:
        return [_copy_containers(x) for x in v]
    if type(v) is dict:
        return {k: _copy_containers(x) for k, x in v.items()}
    return v


def is_num(v):
    return isinstance(v, (int, float, Fraction)) and not isinstance(v, bool)


class PE:
    def __init__(self, model, atoms=None, preds=None, max_depth=4, symbolic_names=True, call_hook=None, attr_hook=None, loop_hook=None, atoms_not_none=False, default_pred=None, compare_hook=None, sub_hook=None, comp_hook=None):
        self.model = model
        self.atoms = atoms or {}            # normalised text -> value (P / const)
        self.preds = preds or {}            # normalised test text -> bool
        self.max_depth = max_depth
        self.call_hook = call_hook          # (pe, dotted name, call node, arg values, kw values) -> value or NotImplemented
        self.attr_hook = attr_hook
        self.loop_hook = loop_hook          # (pe, For stmt, env) -> True if it bound the loop targets itself (generic iteration of an unknown collection)
        self.symbolic_names = symbolic_names
        self.atoms_not_none = atoms_not_none    # symbolic values stand for objects: `v is None` is False (None is passed explicitly where wanted)
        self.comp_hook = comp_hook              # (pe, comprehension node, iterable value, env, func, depth) -> value or NotImplemented (comprehension over a symbolic sequence)
        self.sub_hook = sub_hook                # (pe, node, base value, evaluated index) -> value or NotImplemented (subscript of a symbolic object)
        self.user = {}                          # per-path scratch for hooks (reset at the start of every path, copied to Outcome.user)
        self.compare_hook = compare_hook        # (pe, op, left value, right value) -> value or NotImplemented (elementwise comparisons that are data, not decisions)
        self.default_pred = default_pred        # test text -> bool | None, consulted before forking

    # ------------------------------------------------------------------------------------------------ driver
    def paths(self, func, args=None, max_paths=128, body=None, outer_env=None):
        """all feasible paths through func (or through the statement list `body` evaluated in func's context)"""
        out = []
        work = [[]]
        while work:
            dec = work.pop()
            self.decisions, self.cursor = dec, 0
            self.conds, self.stores, self.calls, self.mem, self.trace = [], [], [], {}, []
            self.subloads, self.substores = [], []
            self.augs = []
            self.user = {}
            self._shared_lists = set()
            try:
                kind, val, env = self._run(func, {k: _copy_containers(v) for k, v in (args or {}).items()}, body, 0, outer_env)
                out.append(Outcome(kind, val, list(self.conds), list(self.stores), list(self.calls), env, dict(self.mem)))
                out[-1].trace = list(self.trace)
                out[-1].subloads, out[-1].substores = list(self.subloads), list(self.substores)
                out[-1].user = self.user
                out[-1].augs = list(self.augs)
            except NeedDecision:
                work.append(dec + [False])
                work.append(dec + [True])
            if len(out) + len(work) > max_paths:
                raise Incomplete('more than %d paths through %s' % (max_paths, func.qualname))
        return out

    def _run(self, func, args, body, depth, outer_env=None):
        env = dict(outer_env) if outer_env else {}      # a closure evaluated in the (final) environment of its defining function
        f = func.node
        params = func.params
        for p in params:
            if p in args:
                env[p] = args[p]
        for p, d in func.defaults().items():
            if p not in env:
                env[p] = self.expr(d, {}, func, depth)
        for p in params:
            if p not in env:
                env[p] = P.atom(p) if self.symbolic_names else Opaque(p)
        try:
            self.block(body if body is not None else f.body, env, func, depth)
            return 'fall', None, env
        except _Return as r:
            return 'return', r.value, env
        except Raised as r:
            return 'raise', r.what, env
        except (_Continue, _Break):
            return 'fall', None, env

    # ------------------------------------------------------------------------------------------------ decisions
    def decide(self, test_text):
        if test_text in self.preds:
            v = self.preds[test_text]
            self.conds.append((test_text, v))
            return v
        for t, v in self.conds:
            if t == test_text:
                return v
        if self.default_pred is not None:
            v = self.default_pred(test_text)
            if v is not None:
                self.conds.append((test_text, v))
                return v
        if self.cursor < len(self.decisions):
            v = self.decisions[self.cursor]
            self.cursor += 1
            self.conds.append((test_text, v))
            return v
        raise NeedDecision(test_text)

    # ------------------------------------------------------------------------------------------------ statements
    def block(self, stmts, env, func, depth):
        for s in stmts:
            self.stmt(s, env, func, depth)

    def stmt(self, s, env, func, depth):
        if isinstance(s, ast.Expr):
            if not isinstance(s.value, ast.Constant):
                self.expr(s.value, env, func, depth)
            return
        if isinstance(s, ast.Assign):
            v = self.expr(s.value, env, func, depth)
            for t in s.targets:
                self.assign(t, v, env, func, depth, s)
            return
        if isinstance(s, ast.AnnAssign):
            if s.value is not None:
                self.assign(s.target, self.expr(s.value, env, func, depth), env, func, depth, s)
            return
        if isinstance(s, ast.AugAssign):
            cur = self.expr(s.target, env, func, depth)
            rhs = self.expr(s.value, env, func, depth)
            if isinstance(s.target, (ast.Attribute, ast.Subscript)):
                self.augs.append((self.loc_text(s.target, env, func, depth), type(s.op).__name__, rhs, s, list(self.conds)))
            self.assign(s.target, self.binop(s.op, cur, rhs, s), env, func, depth, s)
            return
        if isinstance(s, ast.If):
            if self.truth(s.test, env, func, depth):
                self.block(s.body, env, func, depth)
            else:
                self.block(s.orelse, env, func, depth)
            return
        if isinstance(s, ast.Return):
            raise _Return(self.expr(s.value, env, func, depth) if s.value is not None else None)
        if isinstance(s, ast.Raise):
            raise Raised(norm(s.exc)[:80] if s.exc is not None else 'raise')
        if isinstance(s, (ast.Pass, ast.Global, ast.Nonlocal, ast.Import, ast.ImportFrom, ast.FunctionDef, ast.ClassDef)):
            if isinstance(s, ast.FunctionDef):
                env[s.name] = Closure(s.name, self.model.funcs.get('%s.%s' % (func.qualname, s.name)), env, func)
            return
        if isinstance(s, ast.Assert):
            return
        if isinstance(s, ast.Continue):
            raise _Continue()
        if isinstance(s, ast.Break):
            raise _Break()
        if isinstance(s, (ast.With, ast.AsyncWith)):
            for it in s.items:
                v = self.expr(it.context_expr, env, func, depth)
                if it.optional_vars is not None:
                    self.assign(it.optional_vars, v, env, func, depth, s)
            self.calls.append(('<with-begin>', [norm(it.context_expr) for it in s.items], {}, s))
            try:
                self.block(s.body, env, func, depth)
            finally:
                self.calls.append(('<with-end>', [], {}, s))
            return
        if isinstance(s, ast.For):
            it = self.expr(s.iter, env, func, depth)
            if isinstance(it, PSet):
                it = self.unordered(it)
            if isinstance(it, dict):
                it = list(it.keys())
            if isinstance(it, (list, tuple)) and len(it) <= 32:
                for x in it:
                    self.assign(s.target, x, env, func, depth, s)
                    try:
                        self.block(s.body, env, func, depth)
                    except _Continue:
                        continue
                    except _Break:
                        break
                else:
                    self.block(s.orelse, env, func, depth)
                return
            # loop over an unknown collection: one generic iteration
            if not (self.loop_hook is not None and self.loop_hook(self, s, env)):
                self.assign(s.target, Opaque('elem(%s)' % norm(s.iter)), env, func, depth, s)
            self.calls.append(('<loop-begin>', [it, self.loc_text(s.iter, env, func, depth) if isinstance(s.iter, (ast.Name, ast.Attribute, ast.Subscript)) else norm(s.iter)], {}, s))
            try:
                try:
                    self.block(s.body, env, func, depth)
                except (_Continue, _Break):
                    pass
            finally:
                self.calls.append(('<loop-end>', [], {}, s))
            return
        if isinstance(s, ast.While):
            # decidable tests: iterate (bounded); otherwise: zero iterations, or one generic iteration followed by exit
            self.calls.append(('<loop-begin>', [None, 'while ' + norm(s.test)], {}, s))
            try:
                n = 0
                while True:
                    go = self.truth(s.test, env, func, depth) if n == 0 or self._concrete_test(s.test, env, func, depth) else False
                    if not go:
                        break
                    n += 1
                    if n > 64:
                        raise Incomplete('while loop does not terminate within 64 evaluated iterations: %s' % norm(s.test)[:60])
                    try:
                        self.block(s.body, env, func, depth)
                    except _Continue:
                        continue
                    except _Break:
                        break
                else:
                    pass
                if n == 0 or not go:
                    self.block(s.orelse, env, func, depth)
            finally:
                self.calls.append(('<loop-end>', [], {}, s))
            return
        if isinstance(s, ast.Try):
            try:
                try:
                    self.block(s.body, env, func, depth)
                except Raised as r:
                    kind = str(r.what).split('(')[0].strip()
                    handler = None
                    for h in s.handlers:
                        if h.type is None:
                            handler = h
                            break
                        names = [norm(x).split('.')[-1] for x in (h.type.elts if isinstance(h.type, ast.Tuple) else [h.type])]
                        if kind in names or 'Exception' in names or 'BaseException' in names \
                                or (kind in ('KeyError', 'IndexError') and 'LookupError' in names) or (kind == 'ZeroDivisionError' and 'ArithmeticError' in names):
                            handler = h
                            break
                        if not kind.endswith('Error') and not kind.endswith('Exception') and kind not in ('StopIteration', 'raise'):
                            raise Incomplete('exception of unknown kind (%s) reaches an except clause' % str(r.what)[:50])
                    if handler is None:
                        raise
                    if handler.name:
                        env[handler.name] = Opaque('<%s>' % kind)
                    self.block(handler.body, env, func, depth)
                else:
                    self.block(s.orelse, env, func, depth)
            finally:
                if s.finalbody:
                    self.block(s.finalbody, env, func, depth)
            return
        if isinstance(s, ast.Delete):
            for t in s.targets:
                if isinstance(t, (ast.Subscript, ast.Attribute)):
                    self.calls.append(('del', [self.loc_text(t, env, func, depth)], {}, s))
            return
        raise Incomplete('statement outside the partial-evaluation fragment: %s' % norm(s)[:70])

    def assign(self, t, v, env, func, depth, stmt):
        if isinstance(t, ast.Name):
            env[t.id] = v
            self.trace.append((func.qualname, t.id, stmt))
        elif isinstance(t, (ast.Tuple, ast.List)):
            stars = [i for i, e in enumerate(t.elts) if isinstance(e, ast.Starred)]
            if hasattr(v, 'pe_unpack'):
                v = v.pe_unpack(len(t.elts), stars[0] if stars else None)
            if isinstance(v, (list, tuple)) and len(v) == len(t.elts) and not stars:
                for e, x in zip(t.elts, v):
                    self.assign(e, x, env, func, depth, stmt)
            elif isinstance(v, (list, tuple)) and len(stars) == 1 and len(v) >= len(t.elts) - 1:
                i = stars[0]
                tail = len(t.elts) - i - 1
                for e, x in zip(t.elts[:i], v[:i]):
                    self.assign(e, x, env, func, depth, stmt)
                self.assign(t.elts[i].value, list(v[i:len(v) - tail]), env, func, depth, stmt)
                for e, x in zip(t.elts[i + 1:], v[len(v) - tail:] if tail else []):
                    self.assign(e, x, env, func, depth, stmt)
            elif isinstance(v, P) and len(v.t) == 1 and list(v.t.values())[0] == 1 and len(list(v.t)[0]) == 1 and list(v.t)[0][0][1] == 1 \
                    and not any(isinstance(e, ast.Starred) for e in t.elts):
                base = list(v.t)[0][0][0]
                for i, e in enumerate(t.elts):
                    key = '%s[%d]' % (base, i)
                    self.assign(e, self.atoms.get(key, P.atom(key)), env, func, depth, stmt)
            else:
                for i, e in enumerate(t.elts):
                    tgt = e.value if isinstance(e, ast.Starred) else e
                    self.assign(tgt, Opaque('%s[%d]' % (getattr(v, 'text', norm(stmt.value) if hasattr(stmt, 'value') and stmt.value is not None else '?'), i)), env, func, depth, stmt)
        elif isinstance(t, (ast.Attribute, ast.Subscript)):
            if isinstance(t, ast.Attribute):
                ob = self._object_of(t.value, env, func, depth)
                if ob is not None and hasattr(ob, 'pe_setattr') and ob.pe_setattr(self, t.attr, v, stmt, env, func, depth) is not NotImplemented:
                    self.stores.append((self.loc_text(t, env, func, depth), v, stmt))
                    return
            if isinstance(t, ast.Subscript):
                idx = self.index_value(t.slice, env, func, depth)
                base = self.expr(t.value, env, func, depth) if isinstance(t.value, ast.Name) and isinstance(env.get(t.value.id), (list, Vec)) else None
                if base is not None:
                    # in-place update of a known list / vector held in a local
                    new = self.update_seq(base, idx, v)
                    if new is not None:
                        env[t.value.id] = new
                        return
                else:
                    # a known dict / list reached through a name or an attribute: the object itself is updated (heap semantics)
                    try:
                        held = self.expr(t.value, env, func, depth) if isinstance(t.value, (ast.Name, ast.Attribute, ast.Subscript)) else None
                    except Incomplete:
                        held = None
                    if isinstance(idx, P) and idx.is_const() and idx.const_value().denominator == 1:
                        idx = int(idx.const_value())
                    if isinstance(held, dict) and isinstance(idx, (str, int)):
                        held[idx] = v
                        self.substores.append((self.loc_text(t.value, env, func, depth), idx, v, stmt))
                        self.stores.append((self.loc_text(t, env, func, depth), v, stmt))
                        return
                    if isinstance(held, list) and isinstance(idx, int) and not isinstance(idx, bool) and -len(held) <= idx < len(held):
                        held[idx] = v
                        self.substores.append((self.loc_text(t.value, env, func, depth), idx, v, stmt))
                        self.stores.append((self.loc_text(t, env, func, depth), v, stmt))
                        return
                self.substores.append((self.loc_text(t.value, env, func, depth), idx, v, stmt))
            key = self.loc_text(t, env, func, depth)
            self.mem[key] = v
            self.stores.append((key, v, stmt))
        elif isinstance(t, ast.Starred):
            self.assign(t.value, v, env, func, depth, stmt)

    def update_seq(self, base, idx, v):
        n = len(base)
        if isinstance(idx, int) and not isinstance(idx, bool) and -n <= idx < n:
            new = type(base)(base)
            new[idx] = v
            return new
        if isinstance(idx, tuple) and idx and idx[0] == 'slice' and all(x is None or isinstance(x, int) for x in idx[1:]):
            pos = list(range(n))[slice(idx[1], idx[2], idx[3])]
            if isinstance(v, (list, tuple)) and len(v) == len(pos):
                new = type(base)(base)
                for k, x in zip(pos, v):
                    new[k] = x
                return new
        return None

    # ------------------------------------------------------------------------------------------------ indices
    def index_value(self, sl, env, func, depth):
        """evaluated subscript: a Slice becomes ('slice', lo, hi, step); a tuple index becomes a tuple of evaluated components (starred parts expanded)"""
        if isinstance(sl, ast.Slice):
            return ('slice',) + tuple(self.expr(b, env, func, depth) if b is not None else None for b in (sl.lower, sl.upper, sl.step))
        if isinstance(sl, ast.Tuple):
            out = []
            for x in sl.elts:
                if isinstance(x, ast.Starred):
                    v = self.expr(x.value, env, func, depth)
                    if isinstance(v, (list, tuple)):
                        out.extend(v)
                    else:
                        out.append(Opaque('*' + norm(x.value)))
                else:
                    out.append(self.index_value(x, env, func, depth))
            return tuple(out)
        return self.expr(sl, env, func, depth)

    # ------------------------------------------------------------------------------------------------ locations
    def loc_text(self, e, env, func, depth):
        """normalised text of a memory location with constant-valued / alias names substituted (self.buffer[i] with i = 2 -> self.buffer[2])"""
        if isinstance(e, ast.Subscript):
            base = self.loc_text(e.value, env, func, depth)
            idx = e.slice
            if isinstance(idx, ast.Name) and idx.id in env and isinstance(env[idx.id], (int, str)) and not isinstance(env[idx.id], bool):
                return '%s[%r]' % (base, env[idx.id])
            if isinstance(idx, ast.Name) and isinstance(env.get(idx.id), Opaque) and env[idx.id].text.startswith('@'):
                return '%s[%s]' % (base, env[idx.id].text[1:])
            if isinstance(idx, ast.Name) and isinstance(env.get(idx.id), P):
                return '%s[%s]' % (base, self.loc_text(idx, env, func, depth))
            return '%s[%s]' % (base, norm(idx))
        if isinstance(e, ast.Call) and dotted(e.func) == 'getattr' and len(e.args) >= 2:
            k = self.expr(e.args[1], env, func, depth)
            if isinstance(k, str):
                return '%s.%s' % (self.loc_text(e.args[0], env, func, depth), k)
        if isinstance(e, ast.Attribute):
            return '%s.%s' % (self.loc_text(e.value, env, func, depth), e.attr)
        if isinstance(e, ast.Name):
            v = env.get(e.id)
            if isinstance(v, Opaque) and v.text.startswith('@'):
                return v.text[1:]
            if isinstance(getattr(v, 'loc_text', None), str):
                return v.loc_text           # a symbolic object that names itself (e.g. a symbolic array after np.pad)
            if isinstance(v, P) and len(v.t) == 1:
                (m, c), = v.t.items()
                if c == 1 and len(m) == 1 and m[0][1] == 1:
                    return m[0][0]          # the name is an alias of a symbolic object / location
            return e.id
        return norm(e)

    def _concrete_test(self, e, env, func, depth):
        """can the test be decided from the current values alone (no fork)?"""
        saved = (self.cursor, list(self.conds))
        try:
            dec, self_dec = self.decide, None

            def nodecide(text):
                raise NeedDecision(text)
            self.decide = nodecide
            try:
                self.truth(e, env, func, depth)
                return True
            except NeedDecision:
                return False
            finally:
                self.decide = dec
        finally:
            self.cursor, self.conds = saved[0], saved[1]

    # ------------------------------------------------------------------------------------------------ truth
    def truth(self, e, env, func, depth):
        if isinstance(e, ast.BoolOp):
            if isinstance(e.op, ast.And):
                for v in e.values:
                    if not self.truth(v, env, func, depth):
                        return False
                return True
            for v in e.values:
                if self.truth(v, env, func, depth):
                    return True
            return False
        if isinstance(e, ast.UnaryOp) and isinstance(e.op, ast.Not):
            return not self.truth(e.operand, env, func, depth)
        v = self.expr(e, env, func, depth, want_bool=True)
        if isinstance(v, bool):
            return v
        if v is None:
            return False
        if is_num(v):
            return v != 0
        if isinstance(v, str):
            return len(v) > 0
        if isinstance(v, (list, tuple, dict)):
            return len(v) > 0
        if isinstance(v, P) and v.is_const():
            return v.const_value() != 0
        if isinstance(v, P) and len(v.t) == 1 and not isinstance(e, (ast.Compare, ast.Call)):
            (m, c), = v.t.items()
            if c == 1 and len(m) == 1 and m[0][1] == 1:
                return self.decide(self.atom_text(m[0][0]))        # the truth of a symbolic flag, however the expression reaches it (`affine`, `self.affine`)
        return self.decide(self.test_text(e, env, func, depth))

    def test_text(self, e, env, func, depth):
        """normalised text of an undecidable test, with locals that alias a memory location / atom replaced by that location's text"""
        import copy
        me = self

        class T(ast.NodeTransformer):
            def visit_Name(self, n):
                v = env.get(n.id)
                if isinstance(v, Opaque) and v.text.startswith('@'):
                    return ast.parse(v.text[1:], mode='eval').body
                if isinstance(getattr(v, 'loc_text', None), str) and v.loc_text != n.id:
                    try:
                        return ast.parse(v.loc_text, mode='eval').body       # a symbolic object that names itself
                    except SyntaxError:
                        return n
                if isinstance(v, P) and len(v.t) == 1:
                    (m, c), = v.t.items()
                    if c == 1 and len(m) == 1 and m[0][1] == 1:
                        txt = me.atom_text(m[0][0])
                        if txt != n.id:
                            try:
                                return ast.parse(txt, mode='eval').body
                            except SyntaxError:
                                return n
                if isinstance(v, (int, str, bool)) or v is None:
                    if n.id in env:
                        return ast.Constant(value=v)
                return n
        return norm(T().visit(copy.deepcopy(e)))

    def atom_text(self, atom):
        for k, v in self.atoms.items():
            if isinstance(v, P) and v == P.atom(atom):
                return k
        return atom

    # ------------------------------------------------------------------------------------------------ expressions
    def expr(self, e, env, func, depth, want_bool=False):
        if e is None:
            return None
        if isinstance(e, ast.Constant):
            return e.value
        if isinstance(e, ast.Name):
            if e.id in env:
                return env[e.id]
            if e.id in ('True', 'False', 'None'):
                return {'True': True, 'False': False, 'None': None}[e.id]
            if e.id in self.atoms:
                return self.atoms[e.id]         # a rule may pin a module constant (e.g. the guard epsilon -> 0)
            mod = func.mod
            if e.id in mod.globals:
                g = mod.globals[e.id]
                if isinstance(g, ast.Constant):
                    return P.atom(e.id) if isinstance(g.value, float) and e.id in ('epsilon',) else g.value
                if isinstance(g, (ast.List, ast.Tuple, ast.Dict)):
                    try:
                        return self.expr(g, {}, func, depth)
                    except Incomplete:
                        pass
                if isinstance(g, ast.Call) and isinstance(g.func, ast.Name) and g.func.id == 'object' and not g.args and not g.keywords and e.id.startswith('_'):
                    return Sentinel.of('%s.%s' % (mod.modname, e.id))
            t = norm(e)
            if t in self.atoms:
                return self.atoms[t]
            return P.atom(e.id) if self.symbolic_names else Opaque(e.id)
        if isinstance(e, (ast.Tuple, ast.List)):
            out = []
            for x in e.elts:
                if isinstance(x, ast.Starred):
                    v = self.expr(x.value, env, func, depth)
                    if isinstance(v, (list, tuple)):
                        out.extend(v)
                    else:
                        return Opaque(norm(e))
                else:
                    out.append(self.expr(x, env, func, depth))
            return tuple(out) if isinstance(e, ast.Tuple) else list(out)
        if isinstance(e, ast.Dict):
            d = {}
            for k, v in zip(e.keys, e.values):
                kk = self.expr(k, env, func, depth) if k is not None else None
                if isinstance(kk, (list, tuple)) and all(isinstance(x, (str, int, bool, type(None))) for x in kk):
                    kk = tuple(kk)
                elif not isinstance(kk, (str, int)):
                    return Opaque(norm(e))
                d[kk] = self.expr(v, env, func, depth)
            return d
        if isinstance(e, ast.Attribute) or isinstance(e, ast.Subscript):
            return self.load(e, env, func, depth)
        if isinstance(e, ast.BinOp):
            return self.binop(e.op, self.expr(e.left, env, func, depth), self.expr(e.right, env, func, depth), e)
        if isinstance(e, ast.UnaryOp):
            if isinstance(e.op, ast.Not):
                return not self.truth(e.operand, env, func, depth)
            v = self.expr(e.operand, env, func, depth)
            if isinstance(e.op, ast.USub):
                if is_num(v):
                    return -v
                if isinstance(v, P):
                    return -v
                return Opaque('-%s' % getattr(v, 'text', '?'))
            return v
        if isinstance(e, ast.BoolOp):
            return self.truth(e, env, func, depth)
        if isinstance(e, ast.Compare):
            return self.compare(e, env, func, depth)
        if isinstance(e, ast.IfExp):
            return self.expr(e.body if self.truth(e.test, env, func, depth) else e.orelse, env, func, depth)
        if isinstance(e, ast.Call):
            return self.call(e, env, func, depth)
        if isinstance(e, ast.JoinedStr):
            parts = []
            for v in e.values:
                if isinstance(v, ast.Constant):
                    x = str(v.value)
                elif isinstance(v, ast.FormattedValue) and v.format_spec is None and v.conversion == -1:
                    try:
                        x = self.expr(v.value, env, func, depth)
                    except (Incomplete, NeedDecision):
                        raise
                    if isinstance(x, (int, str)) and not isinstance(x, bool):
                        x = str(x)
                else:
                    return Opaque('<fstring>')
                if isinstance(x, str) and parts and isinstance(parts[-1], str):
                    parts[-1] += x
                else:
                    parts.append(x)
            if all(isinstance(x, str) for x in parts):
                return ''.join(parts)
            return FStr(parts)
        if isinstance(e, (ast.ListComp, ast.GeneratorExp)):
            if len(e.generators) == 1:
                g = e.generators[0]
                it = self.expr(g.iter, env, func, depth)
                if isinstance(it, PSet):
                    it = self.unordered(it)
                if isinstance(it, dict):
                    it = list(it.keys())
                if isinstance(it, (list, tuple)) and len(it) <= 32:
                    out = []
                    for x in it:
                        env2 = dict(env)
                        self.assign(g.target, x, env2, func, depth, e)
                        if all(self.truth(c, env2, func, depth) for c in g.ifs):
                            out.append(self.expr(e.elt, env2, func, depth))
                    return out
                if self.comp_hook is not None:
                    r = self.comp_hook(self, e, it, env, func, depth)
                    if r is not NotImplemented:
                        return r
            return Opaque(norm(e))
        if isinstance(e, ast.DictComp) and len(e.generators) == 1:
            g = e.generators[0]
            it = self.expr(g.iter, env, func, depth)
            if isinstance(it, PSet):
                it = self.unordered(it)
            if isinstance(it, dict):
                it = list(it.keys())
            if isinstance(it, (list, tuple)) and len(it) <= 64:
                out = {}
                for x in it:
                    env2 = dict(env)
                    self.assign(g.target, x, env2, func, depth, e)
                    if all(self.truth(c, env2, func, depth) for c in g.ifs):
                        k = self.expr(e.key, env2, func, depth)
                        if isinstance(k, P) and k.is_const() and k.const_value().denominator == 1:
                            k = int(k.const_value())
                        if isinstance(k, list):
                            k = tuple(k)
                        if not (isinstance(k, (str, int, bool, type(None))) or (isinstance(k, tuple) and all(isinstance(y, (str, int, bool, type(None))) for y in k))):
                            return Opaque(norm(e))
                        out[k] = self.expr(e.value, env2, func, depth)
                return out
            return Opaque(norm(e))
        if isinstance(e, ast.Slice):
            return Opaque(norm(e))
        if isinstance(e, ast.NamedExpr) and isinstance(e.target, ast.Name):
            v = self.expr(e.value, env, func, depth)
            env[e.target.id] = v
            return v
        if isinstance(e, ast.Lambda):
            return Lam(e, env, func)
        if isinstance(e, ast.Starred):
            return self.expr(e.value, env, func, depth)
        raise Incomplete('expression outside the partial-evaluation fragment: %s' % norm(e)[:70])

    def load(self, e, env, func, depth):
        # element of a known tuple / list / dict
        if isinstance(e, ast.Subscript):
            base = self.expr(e.value, env, func, depth)
            if isinstance(base, (list, tuple, dict, str)) and not isinstance(e.slice, ast.Slice):
                idx = self.expr(e.slice, env, func, depth)
                if isinstance(idx, P) and idx.is_const() and idx.const_value().denominator == 1:
                    idx = int(idx.const_value())
                if isinstance(base, dict):
                    if isinstance(idx, list):
                        idx = tuple(idx)
                    if isinstance(idx, (str, int)) or (isinstance(idx, tuple) and all(isinstance(x, (str, int, bool, type(None))) for x in idx)):
                        if idx in base:
                            if type(base[idx]) is list:
                                self._shared_lists = getattr(self, '_shared_lists', set()) | {id(base[idx])}
                            return base[idx]
                        raise Raised('KeyError(%r)' % (idx,))
                elif isinstance(idx, int) and not isinstance(idx, bool):
                    if -len(base) <= idx < len(base):
                        return base[idx]
                    raise Raised('IndexError')
            if isinstance(base, (list, tuple)) and isinstance(e.slice, ast.Slice):
                lo = self.expr(e.slice.lower, env, func, depth) if e.slice.lower is not None else None
                hi = self.expr(e.slice.upper, env, func, depth) if e.slice.upper is not None else None
                if (lo is None or isinstance(lo, int)) and (hi is None or isinstance(hi, int)) and e.slice.step is None:
                    return base[lo:hi]
        if isinstance(e, ast.Subscript):
            base = self.expr(e.value, env, func, depth)
            idx = self.index_value(e.slice, env, func, depth)
            if isinstance(base, (list, tuple)) and isinstance(idx, tuple) and idx and idx[0] == 'slice' and all(x is None or isinstance(x, int) for x in idx[1:]):
                r = base[slice(idx[1], idx[2], idx[3])]
                return r
            if not isinstance(base, (list, tuple, dict, str)):
                self.subloads.append((self.loc_text(e.value, env, func, depth), idx, e, base))
                if self.sub_hook is not None:
                    r = self.sub_hook(self, e, base, idx)
                    if r is not NotImplemented:
                        return r
        if isinstance(e, ast.Attribute):
            ob = self._object_of(e.value, env, func, depth)
            if ob is not None:
                r = ob.pe_getattr(self, e.attr)
                if r is not NotImplemented:
                    return r
        key = self.loc_text(e, env, func, depth)
        if key in self.mem:
            return self.mem[key]
        if key in self.atoms:
            return self.atoms[key]
        t = norm(e)
        if t in self.atoms and not self._rebound(e, env):
            return self.atoms[t]
        if self.attr_hook is not None:
            r = self.attr_hook(self, e, key, env, func, depth)
            if r is not NotImplemented:
                return r
        if isinstance(e, ast.Attribute) and isinstance(e.value, ast.Name) and func.cls is not None and func.pos_params and e.value.id == func.pos_params[0]:
            mf = self.model.find_method(func.cls, e.attr)
            if mf is not None and not any(isinstance(d, ast.Name) and d.id == 'property' or isinstance(d, ast.Attribute) for d in mf.node.decorator_list):
                return Bound(mf, env.get(e.value.id, Opaque('self')), key)        # a method taken as a value
        return P.atom(key)

    def _object_of(self, e, env, func, depth):
        """the protocol object (a value with pe_getattr: rule-defined heap objects such as a module tree) denoted by a name / attribute / subscript chain"""
        if isinstance(e, ast.Name):
            v = env.get(e.id)
            return v if hasattr(v, 'pe_getattr') else None
        if isinstance(e, (ast.Attribute, ast.Subscript)):
            root = e
            while isinstance(root, (ast.Attribute, ast.Subscript)):
                root = root.value
            if not (isinstance(root, ast.Name) and hasattr(env.get(root.id), 'pe_getattr')):
                return None
            try:
                v = self.expr(e, env, func, depth)
            except (Incomplete, Raised):
                return None
            return v if hasattr(v, 'pe_getattr') else None
        return None

    def _rebound(self, e, env):
        """the root name of location e no longer denotes the symbolic object its text names (it was re-assigned to a value that names itself)"""
        while isinstance(e, (ast.Attribute, ast.Subscript)):
            e = e.value
        return isinstance(e, ast.Name) and isinstance(getattr(env.get(e.id), 'loc_text', None), str)

    def binop(self, op, l, r, node):
        if isinstance(l, Vec) or isinstance(r, Vec):
            n = len(l) if isinstance(l, (list, tuple)) else len(r)
            ls = list(l) if isinstance(l, (list, tuple)) else [l] * n
            rs = list(r) if isinstance(r, (list, tuple)) else [r] * n
            if len(ls) == len(rs):
                return Vec(self.binop(op, a, b, node) for a, b in zip(ls, rs))
            raise Raised('ValueError(broadcast)')
        if isinstance(l, (list, tuple)) and isinstance(r, (list, tuple)) and isinstance(op, ast.Add):
            return type(l)(list(l) + list(r)) if isinstance(l, tuple) else list(l) + list(r)
        if isinstance(l, (list, tuple)) and isinstance(r, int) and isinstance(op, ast.Mult):
            return type(l)(list(l) * r)
        if isinstance(l, str) or isinstance(r, str):
            if isinstance(l, str) and isinstance(r, str) and isinstance(op, ast.Add):
                return l + r
            return Opaque('<str-op>')
        if isinstance(l, bool):
            l = int(l)
        if isinstance(r, bool):
            r = int(r)
        if isinstance(l, int) and isinstance(r, int):
            if isinstance(op, ast.Add): return l + r
            if isinstance(op, ast.Sub): return l - r
            if isinstance(op, ast.Mult): return l * r
            if isinstance(op, ast.FloorDiv) and r != 0: return l // r
            if isinstance(op, ast.Mod) and r != 0: return l % r
            if isinstance(op, ast.Pow) and r >= 0: return l ** r
        if (is_num(l) or isinstance(l, P)) and (is_num(r) or isinstance(r, P)):
            a, b = as_p(l), as_p(r)
            try:
                if isinstance(op, ast.Add): return a + b
                if isinstance(op, ast.Sub): return a - b
                if isinstance(op, (ast.Mult, ast.MatMult)): return a * b
                if isinstance(op, ast.Div): return a / b
                if isinstance(op, ast.Pow): return a ** b
                if isinstance(op, ast.FloorDiv): return p_floor(a / b)
            except ZeroDivisionError:
                raise Raised('ZeroDivisionError')
        return Opaque('(%s %s %s)' % (getattr(l, 'text', l), type(op).__name__, getattr(r, 'text', r)))

    def compare(self, e, env, func, depth):
        vals = [self.expr(e.left, env, func, depth)] + [self.expr(c, env, func, depth) for c in e.comparators]
        if self.compare_hook is not None and len(e.ops) == 1:
            r = self.compare_hook(self, e.ops[0], vals[0], vals[1])
            if r is not NotImplemented:
                return r
        res = True
        for i, op in enumerate(e.ops):
            a, b = vals[i], vals[i + 1]
            r = self.cmp1(op, a, b)
            if r is None:
                sub = ast.Compare(left=e.left if i == 0 else e.comparators[i - 1], ops=[op], comparators=[e.comparators[i]])
                r = self.decide(self.test_text(sub, env, func, depth))
            if not r:
                return False
        return res

    def cmp1(self, op, a, b):
        def const(x):
            if isinstance(x, P) and x.is_const():
                c = x.const_value()
                return int(c) if c.denominator == 1 else c
            return x
        a, b = const(a), const(b)
        basic = (int, float, str, bool, Fraction, type(None))
        if isinstance(op, (ast.Is, ast.IsNot)) and hasattr(a, 'pe_id') and hasattr(b, 'pe_id'):
            return (a is b) == isinstance(op, ast.Is)
        if isinstance(op, (ast.Is, ast.IsNot)) and (isinstance(a, Sentinel) or isinstance(b, Sentinel)):
            # a private marker object is handed out by the module's own code only: any other value (a computed result, a constant, a symbolic input) is not it
            return (a is b) == isinstance(op, ast.Is)
        if isinstance(op, (ast.Is, ast.IsNot)) and isinstance(a, (bool, type(None))) and isinstance(b, (bool, type(None))):
            return (a is b) == isinstance(op, ast.Is)
        if isinstance(op, (ast.Is, ast.IsNot)):
            if b is None or a is None:
                other = a if b is None else b
                if other is None:
                    return isinstance(op, ast.Is)
                if isinstance(other, basic) or isinstance(other, (list, tuple, dict)):
                    return isinstance(op, ast.IsNot)
                if self.atoms_not_none and other is not None:
                    return isinstance(op, ast.IsNot)     # symbolic objects (atoms, opaque values, hook-defined objects) are not None
                return None
            return None
        if isinstance(op, (ast.In, ast.NotIn)) and isinstance(b, (list, tuple, dict)) and (hasattr(a, 'pe_id') or (isinstance(a, basic) and any(hasattr(x, 'pe_id') for x in b))):
            if any(getattr(x, 'pe_eq_overridden', False) for x in list(b) + [a]):
                return None         # the class defines __eq__: membership is decided by it, not by identity
            r = any(x is a or (isinstance(a, basic) and isinstance(x, basic) and x == a) for x in b)
            return r if isinstance(op, ast.In) else not r
        if isinstance(op, (ast.In, ast.NotIn)) and isinstance(b, (list, tuple, dict)) and len(b) == 0:
            return isinstance(op, ast.NotIn)
        if isinstance(op, (ast.In, ast.NotIn)):
            if isinstance(b, (list, tuple, dict, str)) and isinstance(a, basic) and all(isinstance(x, basic) for x in (b if not isinstance(b, dict) else b.keys())):
                r = a in b
                return r if isinstance(op, ast.In) else not r
            return None
        if isinstance(a, basic) and isinstance(b, basic) and a is not None and b is not None:
            try:
                if isinstance(op, ast.Eq): return a == b
                if isinstance(op, ast.NotEq): return a != b
                if isinstance(op, ast.Lt): return a < b
                if isinstance(op, ast.LtE): return a <= b
                if isinstance(op, ast.Gt): return a > b
                if isinstance(op, ast.GtE): return a >= b
            except TypeError:
                return None
        if isinstance(op, (ast.Eq, ast.NotEq)) and (a is None or b is None):
            other = a if b is None else b
            if isinstance(other, basic):
                return (other is None) == isinstance(op, ast.Eq)
            if self.atoms_not_none and other is not None:
                return isinstance(op, ast.NotEq)
        if isinstance(a, P) and isinstance(b, P) and a == b and isinstance(op, (ast.Eq, ast.LtE, ast.GtE)):
            return True
        return None

    # ------------------------------------------------------------------------------------------------ calls
    def unordered(self, ps):
        """the elements of a set in iteration order: no order is guaranteed (hash / address order), so the evaluation takes the REVERSE of the insertion
        order and records that an unordered iteration took place (Outcome.user['unordered'])"""
        if len(ps) > 1:
            self.user['unordered'] = self.user.get('unordered', 0) + 1
        return list(reversed(list(ps)))

    def apply_value(self, fv, args, kw, depth):
        """call a function value (Lam / Bound); NotImplemented when it is neither"""
        if isinstance(fv, Lam) and depth < self.max_depth + 2:
            a = fv.node.args
            if a.vararg or a.kwarg or a.kwonlyargs or a.posonlyargs:
                return NotImplemented
            ps = [x.arg for x in a.args]
            if len(args) > len(ps):
                return NotImplemented
            env2 = dict(fv.env)
            env2.update(zip(ps, args))
            for k, v in kw.items():
                if k not in ps:
                    return NotImplemented
                env2[k] = v
            for p_, d in zip(ps[len(ps) - len(a.defaults):], a.defaults):
                if p_ not in dict(zip(ps, args)) and p_ not in kw:
                    env2[p_] = self.expr(d, fv.env, fv.func, depth)
            return self.expr(fv.node.body, env2, fv.func, depth + 1)
        if isinstance(fv, Closure) and fv.f is not None and depth < self.max_depth + 2:
            f = fv.f
            a = dict(zip(f.pos_params, args))
            a.update(kw)
            kind, val, _ = self._run(f, a, None, depth + 1, outer_env=fv.env)
            if kind == 'raise':
                raise Raised(val)
            return val
        if isinstance(fv, Partial) and depth < self.max_depth + 2:
            # the call is re-issued on the wrapped callee with the stored and the new arguments (hooks see the real callee)
            env2 = dict(fv.env)
            nodes, kws = [], []
            allargs = list(fv.args) + list(args)
            for i, v in enumerate(allargs):
                env2['__pa%d' % i] = v
                nodes.append(ast.Name(id='__pa%d' % i, ctx=ast.Load()))
            allkw = dict(fv.kw)
            allkw.update(kw)
            for k, v in allkw.items():
                env2['__pk_%s' % k] = v
                kws.append(ast.keyword(arg=k, value=ast.Name(id='__pk_%s' % k, ctx=ast.Load())))
            synth = ast.Call(func=fv.callee_node, args=nodes, keywords=kws)
            ast.copy_location(synth, fv.callee_node)
            ast.fix_missing_locations(synth)
            return self.call(synth, env2, fv.func, depth + 1)
        if isinstance(fv, Bound) and depth < self.max_depth:
            f = fv.f
            a = dict(zip(f.pos_params, [fv.recv] + list(args)))
            a.update(kw)
            kind, val, _ = self._run(f, a, None, depth + 1)
            if kind == 'raise':
                raise Raised(val)
            return val
        return NotImplemented

    def call(self, e, env, func, depth):
        name = self.model.resolve(func.mod, e.func) or dotted(e.func)
        args = []
        for a in e.args:
            if isinstance(a, ast.Starred):
                v = self.expr(a.value, env, func, depth)
                if isinstance(v, (list, tuple)):
                    args.extend(v)
                else:
                    args.append(Opaque('*' + str(getattr(v, 'text', norm(a.value)))))
            else:
                args.append(self.expr(a, env, func, depth))
        kw = {k.arg: self.expr(k.value, env, func, depth) for k in e.keywords if k.arg is not None}
        if name and name.startswith('numpy.') and kw:
            # NumPy call spelled with keywords: bind to positions by the signature so that hooks / builtins see one spelling
            from .npcanon import SIG
            sig = SIG.get(name[6:])
            if sig and len(args) <= len(sig):
                i = len(args)
                while i < len(sig) and sig[i] in kw and sig[i] not in ('dtype', 'out', 'keepdims', 'axis', 'mode', 'ddof'):
                    args.append(kw.pop(sig[i]))
                    i += 1
        resolved = self.model.resolve(func.mod, e.func)
        ctext = resolved
        if ctext is None and isinstance(e.func, ast.Attribute):
            ctext = '%s.%s' % (self.loc_text(e.func.value, env, func, depth) if isinstance(e.func.value, (ast.Name, ast.Attribute, ast.Subscript, ast.Call)) else norm(e.func.value), e.func.attr)
        # a method of a rule-defined heap object
        if isinstance(e.func, ast.Attribute):
            ob = self._object_of(e.func.value, env, func, depth)
            if ob is not None and hasattr(ob, 'pe_call_method'):
                self.calls.append(('%s.%s' % (getattr(ob, 'text', '?'), e.func.attr), args, kw, e))
                r = ob.pe_call_method(self, e.func.attr, args, kw, depth, e)
                if r is not NotImplemented:
                    return r
                self.calls.pop()
        if isinstance(e.func, ast.Name) and hasattr(env.get(e.func.id), 'pe_call'):
            ob = env[e.func.id]
            self.calls.append((getattr(ob, 'text', e.func.id), args, kw, e))
            return ob.pe_call(self, args, kw, depth, e)
        # a function VALUE is called: a lambda (possibly picked from a table), or a method taken as a value
        fv = None
        if isinstance(e.func, ast.Name) and isinstance(env.get(e.func.id), (Lam, Bound, Partial)):
            fv = env[e.func.id]
        elif isinstance(e.func, ast.Name) and isinstance(env.get(e.func.id), Closure) and env[e.func.id].f is not None:
            fv = env[e.func.id]         # a nested def called as a value: runs in the environment of its definition
        elif isinstance(e.func, (ast.Subscript, ast.Call, ast.Lambda, ast.IfExp)):
            try:
                fv = self.expr(e.func, env, func, depth)
            except Incomplete:
                fv = None
        if isinstance(fv, Bound):
            ctext = fv.text
        if not isinstance(fv, (Lam, Closure, Partial)):
            self.calls.append((ctext or norm(e.func), args, kw, e))
        if self.call_hook is not None and not isinstance(fv, (Lam, Closure, Partial)):
            r = self.call_hook(self, name if not isinstance(fv, Bound) else fv.f.qualname, e, args, kw, env, func, depth)
            if r is not NotImplemented:
                return r
        if isinstance(fv, (Lam, Bound, Closure, Partial)):
            r = self.apply_value(fv, args, kw, depth)
            if r is not NotImplemented:
                return r
        # methods on known values
        if isinstance(e.func, ast.Attribute):
            recv_node = e.func.value
            m = e.func.attr
            if m in ('append', 'extend') and isinstance(recv_node, ast.Name) and isinstance(env.get(recv_node.id), list) and not isinstance(env.get(recv_node.id), PSet) and len(args) == 1 \
                    and id(env[recv_node.id]) in getattr(self, '_shared_lists', ()):
                # the local name is another reference to a list held in a dict / attribute: the object itself grows
                if m == 'append':
                    env[recv_node.id].append(args[0])
                    return None
                if isinstance(args[0], (list, tuple)):
                    env[recv_node.id].extend(args[0])
                    return None
            if m in ('append', 'extend') and isinstance(recv_node, ast.Name) and isinstance(env.get(recv_node.id), list) and not isinstance(env.get(recv_node.id), PSet) and len(args) == 1:
                if m == 'append':
                    env[recv_node.id] = type(env[recv_node.id])(list(env[recv_node.id]) + [args[0]])
                    return None
                if isinstance(args[0], (list, tuple)):
                    env[recv_node.id] = type(env[recv_node.id])(list(env[recv_node.id]) + list(args[0]))
                    return None
            if m in ('add', 'discard', 'update') and isinstance(recv_node, (ast.Name, ast.Attribute)):
                try:
                    held = self.expr(recv_node, env, func, depth)
                except Incomplete:
                    held = None
                if isinstance(held, PSet):
                    if m == 'add' and len(args) == 1:
                        held.add(args[0])
                        return None
                    if m == 'discard' and len(args) == 1:
                        for i_, y in enumerate(list(held)):
                            if y is args[0] or (isinstance(y, (int, str)) and y == args[0]):
                                del held[i_]
                        return None
                    if m == 'update' and len(args) == 1 and isinstance(args[0], (list, tuple)):
                        for x in args[0]:
                            held.add(x)
                        return None
            if m in ('append', 'extend', 'setdefault', 'update', 'pop', 'insert', 'clear') and not (isinstance(recv_node, ast.Name) and (recv_node.id in ('np', 'math') or isinstance(env.get(recv_node.id), list))):
                # container methods on a known dict / list reached through an attribute, a subscript or a name: the object itself is updated
                try:
                    held = self.expr(recv_node, env, func, depth) if isinstance(recv_node, (ast.Name, ast.Attribute, ast.Subscript)) else None
                except Incomplete:
                    held = None
                if isinstance(held, PSet) and m in ('append', 'extend', 'insert'):
                    held = None
                if isinstance(held, list):
                    if m == 'append' and len(args) == 1:
                        held.append(args[0])
                        return None
                    if m == 'extend' and len(args) == 1 and isinstance(args[0], (list, tuple)):
                        held.extend(args[0])
                        return None
                    if m == 'insert' and len(args) == 2 and isinstance(args[0], int):
                        held.insert(args[0], args[1])
                        return None
                    if m == 'pop' and len(args) <= 1 and held and all(isinstance(a, int) for a in args):
                        return held.pop(*args)
                    if m == 'clear' and not args:
                        del held[:]
                        return None
                if isinstance(held, dict):
                    hashable = lambda k: isinstance(k, (str, int)) and not isinstance(k, bool)
                    if m == 'setdefault' and 1 <= len(args) <= 2 and hashable(args[0]):
                        return held.setdefault(args[0], args[1] if len(args) == 2 else None)
                    if m == 'pop' and 1 <= len(args) <= 2 and hashable(args[0]):
                        if args[0] in held or len(args) == 2:
                            return held.pop(*args)
                        raise Raised('KeyError(%r)' % (args[0],))
                    if m == 'update' and len(args) == 1 and isinstance(args[0], dict) and not kw:
                        held.update(args[0])
                        return None
                    if m == 'clear' and not args:
                        held.clear()
                        return None
            if m == 'index' and len(args) == 1 and isinstance(args[0], P) and not (isinstance(recv_node, ast.Name) and recv_node.id in ('np', 'math')):
                recv = self.expr(recv_node, env, func, depth)
                if isinstance(recv, (list, tuple)) and all(isinstance(x, P) for x in recv):
                    hits = [i for i, x in enumerate(recv) if x == args[0]]
                    if len(hits) == 1:
                        return hits[0]
            if m in ('index', 'count') and not (isinstance(recv_node, ast.Name) and recv_node.id in ('np', 'math')):
                recv = self.expr(recv_node, env, func, depth)
                if isinstance(recv, (list, tuple)) and len(args) == 1 and isinstance(args[0], (str, int)):
                    if m == 'index':
                        if args[0] in recv:
                            return list(recv).index(args[0])
                        raise Raised('ValueError')
                    return list(recv).count(args[0])
            if m in ('item', 'copy', 'astype', 'tolist') and name is None or (m in ('item', 'copy', 'astype') and not (name or '').startswith(('numpy.', 'math.'))):
                recv = self.expr(recv_node, env, func, depth)
                if m == 'item' and isinstance(recv, Vec) and len(recv) == 1:
                    return recv[0]
                if isinstance(recv, (P, int, float, list, tuple)):
                    return recv
            if m in ('get',) :
                recv = self.expr(recv_node, env, func, depth)
                if isinstance(recv, dict) and args and isinstance(args[0], (str, int)):
                    r_ = recv.get(args[0], args[1] if len(args) > 1 else None)
                    if type(r_) is list and args[0] in recv:
                        self._shared_lists = getattr(self, '_shared_lists', set()) | {id(r_)}
                    return r_
            if m == 'format':
                tmpl = self.expr(recv_node, env, func, depth) if isinstance(recv_node, (ast.Constant, ast.Name)) else None
                if isinstance(tmpl, str):
                    import string
                    parts, auto, okf = [], 0, True
                    for lit, field, spec, conv in string.Formatter().parse(tmpl):
                        if lit:
                            parts.append(lit)
                        if field is None:
                            continue
                        if spec or conv:
                            okf = False
                            break
                        if field == '':
                            if auto >= len(args):
                                okf = False
                                break
                            parts.append(args[auto])
                            auto += 1
                        elif field.isdigit() and int(field) < len(args):
                            parts.append(args[int(field)])
                        elif field in kw:
                            parts.append(kw[field])
                        else:
                            okf = False
                            break
                    if okf:
                        merged = []
                        for x in parts:
                            x = str(x) if isinstance(x, (int,)) and not isinstance(x, bool) else x
                            if isinstance(x, str) and merged and isinstance(merged[-1], str):
                                merged[-1] += x
                            else:
                                merged.append(x)
                        if all(isinstance(x, str) for x in merged):
                            return ''.join(merged)
                        return FStr(merged)
                return Opaque('<str>')
            if m in ('items', 'keys', 'values'):
                recv = self.expr(recv_node, env, func, depth)
                if isinstance(recv, dict):
                    return {'items': list(recv.items()), 'keys': list(recv.keys()), 'values': list(recv.values())}[m]
        n = name or ''
        if n in ('numpy.array', 'numpy.asarray') and args and isinstance(args[0], (list, tuple)) and all(is_num(x) or isinstance(x, P) for x in args[0]):
            return Vec(args[0])
        if n in ('float', 'builtins.float', 'numpy.float32', 'numpy.float64', 'numpy.array', 'numpy.asarray') and args:
            return args[0]
        if n in ('int', 'builtins.int') and args:
            v = args[0]
            if isinstance(v, int):
                return v
            if isinstance(v, P):
                f = p_floor(v)
                if f.is_const():
                    c = v.const_value() if v.is_const() else None
                    return int(c) if c is not None else int(f.const_value())          # int() truncates towards zero
                if f == v:
                    return v            # integral already (sizes, or the result of floor): int() is the identity
                return P.atom('trunc(%s)' % v.canon())      # truncation towards zero: NOT floor for negative values
            return Opaque('int(%s)' % getattr(v, 'text', v))
        if n in ('len', 'builtins.len') and args:
            if isinstance(args[0], (list, tuple, str, dict)):
                return len(args[0])
            if hasattr(args[0], 'length') and args[0].length is not None:
                return args[0].length
            if isinstance(e.args[0], ast.Name) and func.cls is not None and func.pos_params and e.args[0].id == func.pos_params[0] and depth < self.max_depth:
                lm = self.model.find_method(func.cls, '__len__')
                if lm is not None:
                    kind, val, _ = self._run(lm, {lm.pos_params[0]: args[0]}, None, depth + 1)
                    if kind == 'raise':
                        raise Raised(val)
                    return val
            lt = 'len(%s)' % (self.loc_text(e.args[0], env, func, depth) if isinstance(e.args[0], (ast.Name, ast.Attribute, ast.Subscript)) else norm(e.args[0]))
            if lt in self.atoms:
                return self.atoms[lt]
            return P.atom('len(%s)' % (self.loc_text(e.args[0], env, func, depth) if isinstance(e.args[0], (ast.Name, ast.Attribute, ast.Subscript)) else norm(e.args[0])))
        if n in ('bool', 'builtins.bool') and len(args) == 1:
            v = args[0]
            if isinstance(v, (bool, int, float, str, list, tuple, dict, type(None))) and not isinstance(v, P):
                return bool(v)
            if isinstance(v, P) and v.is_const():
                return v.const_value() != 0
            return self.truth(e.args[0], env, func, depth)
        if n in ('str', 'builtins.str'):
            return str(args[0]) if args and isinstance(args[0], (int, str)) else Opaque('<str>')
        if n in ('any', 'all', 'builtins.any', 'builtins.all') and len(args) == 1 and isinstance(args[0], (list, tuple)) and all(isinstance(x, bool) for x in args[0]):
            return any(args[0]) if n.endswith('any') else all(args[0])
        if n in ('tuple', 'list', 'builtins.tuple', 'builtins.list') and args:
            if isinstance(args[0], PSet):
                return (tuple if n.endswith('tuple') else list)(self.unordered(args[0]))
            if isinstance(args[0], (list, tuple)):
                return tuple(args[0]) if n.endswith('tuple') else list(args[0])
            return args[0]
        if n in ('range', 'builtins.range') and all(isinstance(a, int) for a in args) and args:
            r = list(range(*args))
            if len(r) <= 32:
                return r
        if n in ('enumerate',) and args and isinstance(args[0], (list, tuple)):
            return list(enumerate(args[0]))
        if n in ('zip',) and args and all(isinstance(a, (list, tuple)) for a in args):
            return list(zip(*args))
        if n in ('functools.partial', 'partial') and e.args and not isinstance(e.args[0], ast.Starred):
            return Partial(e.args[0], args[1:], kw, func, env)
        if n in ('set', 'builtins.set', 'frozenset') and len(args) <= 1 and not kw and (not args or isinstance(args[0], (list, tuple))):
            ps = PSet()
            for x in (args[0] if args else ()):
                ps.add(x)
            return ps
        if n in ('id', 'builtins.id') and len(args) == 1 and hasattr(args[0], 'pe_id'):
            return args[0].pe_id
        if n in ('hasattr', 'builtins.hasattr') and len(args) == 2 and hasattr(args[0], 'pe_hasattr') and isinstance(args[1], str):
            return args[0].pe_hasattr(args[1])
        if n in ('getattr', 'builtins.getattr') and len(args) in (2, 3) and hasattr(args[0], 'pe_getattr') and isinstance(args[1], str):
            r = args[0].pe_getattr(self, args[1])
            if r is not NotImplemented:
                return r
            if len(args) == 3:
                return args[2]
            raise Raised('AttributeError(%s)' % args[1])
        if n in ('itertools.chain', 'chain') and all(isinstance(a, (list, tuple)) for a in args):
            out = []
            for a in args:
                out.extend(a)
            return out
        if n in ('isinstance', 'builtins.isinstance') and len(args) == 2 and hasattr(args[0], 'pe_isinstance'):
            names = [x.strip() for x in norm(e.args[1]).strip('()').split(',') if x.strip()]
            r = args[0].pe_isinstance(names)
            if r is not None:
                return r
        if n in ('isinstance', 'builtins.isinstance') and len(args) == 2:
            v = args[0]
            tname = norm(e.args[1])
            py = {'int': int, 'float': float, 'str': str, 'bool': bool, 'list': list, 'tuple': tuple, 'dict': dict, 'OrderedDict': dict, 'collections.OrderedDict': dict}
            if isinstance(v, (int, float, str, bool, list, tuple, dict)) or v is None:
                names = [x.strip() for x in tname.strip('()').split(',')]
                if all(x in py for x in names):
                    return isinstance(v, tuple(py[x] for x in names))
                # classes defined in the package never contain a plain Python value
                tnodes = e.args[1].elts if isinstance(e.args[1], ast.Tuple) else [e.args[1]]
                res = [self.model.resolve(func.mod, t_) for t_ in tnodes]
                if all((r and r in self.model.classes) or norm(t_) in py for r, t_ in zip(res, tnodes)):
                    return any(norm(t_) in py and isinstance(v, py[norm(t_)]) for t_ in tnodes)
            return self.decide(self.test_text(e, env, func, depth))
        if n in ('numpy.sqrt', 'numpy.floor') and args and isinstance(args[0], Vec):
            fn = p_sqrt if n.endswith('sqrt') else p_floor
            return Vec(fn(as_p(x)) if (is_num(x) or isinstance(x, P)) else Opaque('%s(%s)' % (n, x)) for x in args[0])
        if n in ('numpy.sqrt', 'math.sqrt') and args and (is_num(args[0]) or isinstance(args[0], P)):
            return p_sqrt(as_p(args[0]))
        if n in ('numpy.ceil', 'math.ceil') and args and (is_num(args[0]) or isinstance(args[0], P)):
            return -p_floor(-as_p(args[0]))         # ceil(x) = -floor(-x), exact
        if n in ('numpy.floor', 'math.floor') and args and (is_num(args[0]) or isinstance(args[0], P)):
            return p_floor(as_p(args[0]))
        if n in ('numpy.prod', 'math.prod') and args:
            if isinstance(args[0], (list, tuple)) and all(is_num(x) or isinstance(x, P) for x in args[0]):
                r = P.const(1)
                for x in args[0]:
                    r = r * as_p(x)
                return r
            if is_num(args[0]) or (isinstance(args[0], P) and len(args[0].t) > 1):
                return args[0]              # a computed scalar (a bare atom may stand for a tuple such as shape[2:])
            return P.atom('prod(%s)' % (self.loc_text(e.args[0], env, func, depth) if isinstance(e.args[0], (ast.Name, ast.Attribute, ast.Subscript)) else norm(e.args[0])))
        if n in ('slice', 'builtins.slice') and 1 <= len(args) <= 3:
            a3 = [None, args[0], None] if len(args) == 1 else (list(args) + [None])[:3]
            return ('slice', a3[0], a3[1], a3[2])
        if n == 'numpy.cumprod' and len(args) == 1 and isinstance(args[0], (list, tuple)) and all(is_num(x) or isinstance(x, P) for x in args[0]):
            out, acc = [], P.const(1)
            for x in args[0]:
                acc = acc * as_p(x)
                out.append(acc)
            return Vec(out)
        if n in ('sum', 'builtins.sum') and len(args) == 1 and isinstance(args[0], (list, tuple)) and all(is_num(x) or isinstance(x, P) for x in args[0]):
            acc = P.const(0)
            for x in args[0]:
                acc = acc + as_p(x)
            return acc
        if n == 'numpy.broadcast_to' and len(args) == 2 and isinstance(args[1], int):
            v = args[0]
            if isinstance(v, (list, tuple)):
                if len(v) != args[1]:
                    raise Raised('ValueError(broadcast_to)')
                return Vec(v)
            if is_num(v):
                return Vec([v] * args[1])
            if isinstance(v, P):
                # an int-or-tuple geometry argument: per-axis atoms  name[0], name[1], ...
                if len(v.t) == 1:
                    (m, c), = v.t.items()
                    if c == 1 and len(m) == 1 and m[0][1] == 1:
                        return Vec(self.atoms.get('%s[%d]' % (m[0][0], i), P.atom('%s[%d]' % (m[0][0], i))) for i in range(args[1]))
                return Vec([v] * args[1])
        if n in ('abs', 'builtins.abs', 'max', 'min', 'builtins.max', 'builtins.min') and args and all(is_num(a) for a in args):
            return {'abs': abs, 'max': max, 'min': min}[n.split('.')[-1]](*args)
        # a private helper class of the package: a real instance whose methods are evaluated
        if n and n in self.model.classes and n.rsplit('.', 1)[-1].startswith('_') and depth < self.max_depth:
            cls_ = self.model.classes[n]
            ob = Inst(self.model, cls_)
            ini = self.model.find_method(cls_, '__init__')
            if ini is not None:
                a = dict(zip(ini.pos_params, [ob] + list(args)))
                a.update(kw)
                kind, val, _ = self._run(ini, a, None, depth + 1)
                if kind == 'raise':
                    raise Raised(val)
            return ob
        # repository function: inline
        f = self.model.funcs.get(n) if n else None
        if f is None and isinstance(e.func, ast.Name) and isinstance(env.get(e.func.id), Opaque) and env[e.func.id].text == '<closure %s>' % e.func.id:
            f = self.model.funcs.get('%s.%s' % (func.qualname, e.func.id))      # a nested def of the current function (free variables read as atoms of their names)
        if f is None and isinstance(e.func, ast.Attribute) and isinstance(e.func.value, ast.Name) and e.func.value.id == 'self' and func.cls is not None:
            f = self.model.find_method(func.cls, e.func.attr)
            if f is not None:
                args = [env.get(func.pos_params[0], Opaque('self'))] + args
        if f is not None and depth < self.max_depth:
            a = {}
            ps = f.pos_params
            if len(args) > len(ps):
                return Opaque(norm(e))
            for p, v in zip(ps, args):
                a[p] = v
            for k, v in kw.items():
                a[k] = v
            kind, val, _ = self._run(f, a, None, depth + 1)
            if kind == 'raise':
                raise Raised(val)
            return val
        return Opaque(norm(e))
