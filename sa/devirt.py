"""Devirtualisation of private carrier classes.

A private class of a module (class _Name) whose instances never leave the function that creates them is only a way of spelling a few locals and a few
helper functions.  This pass rewrites such classes into exactly that, so that every rule sees the code the class stands for:

    x = _C(a, b)            ->  x = _C____new(a, b)            _C____new(a, b):  self = {} ; <__init__ body, self.f = v -> self['f'] = v> ; return self
    x.field                 ->  x['field']
    x.prop                  ->  _C__prop(x)                    one specialised copy of every method per *dynamic* class (overridden class attributes and
    x.method(u)             ->  _C__method(x, u)               methods resolve through the MRO of _C, not of the class the method was written in)
    x.CONST / _C.CONST      ->  the class-level value          (staticmethod(f) -> f)
    _C.static(u)            ->  _C__static(u)
    super().__init__(..)    ->  the next __init__ of the MRO, or nothing when there is none (object.__init__)

The generated functions are ordinary private helpers: the helper inliner substitutes them and the record-dict pass turns the field dictionary into locals.

A class is only rewritten when EVERY use of it in the module is one of the forms above: instances bound to a local that is only read through attributes, or
used as a temporary (`_C(w).flat`); `self` only used through attributes inside the methods; no dunder methods other than __init__; no decorators other than
property / staticmethod; single inheritance from other rewritable classes.  Anything else (an instance that is returned, stored, passed on, iterated, compared,
used with isinstance ...) leaves the class exactly as written - it is then evaluated as an object by the partial evaluator (peval.Inst).
"""
import ast
import copy


class _Skip(Exception):
    pass


def _docstring(st):
    return isinstance(st, ast.Expr) and isinstance(st.value, ast.Constant) and isinstance(st.value.value, str)


class _Cls:
    def __init__(self, node):
        self.node = node
        self.name = node.name
        self.base = None            # _Cls or None
        self.methods = {}           # name -> (FunctionDef, kind) kind in plain / property / static
        self.consts = {}            # class attribute -> value expression
        self.fields = set()


def _collect(tree):
    classes = {}
    for n in tree.body:
        if isinstance(n, ast.ClassDef) and n.name.startswith('_') and not n.name.startswith('__') and not n.keywords:
            if not n.decorator_list:
                classes[n.name] = _Cls(n)
            elif len(n.decorator_list) == 1 and ast.unparse(n.decorator_list[0].func if isinstance(n.decorator_list[0], ast.Call) else n.decorator_list[0]).split('.')[-1] == 'dataclass' \
                    and not n.bases and not any(isinstance(st, ast.FunctionDef) and st.name in ('__init__', '__post_init__') for st in n.body):
                dc = _dataclass_as_plain(n)
                if dc is not None:
                    classes[n.name] = _Cls(dc)
                    tree.body[tree.body.index(n)] = dc
    ok = {}
    for name, c in classes.items():
        try:
            bases = [b for b in c.node.bases if not (isinstance(b, ast.Name) and b.id == 'object')]
            if len(bases) > 1:
                raise _Skip
            if bases:
                if not (isinstance(bases[0], ast.Name) and bases[0].id in classes):
                    raise _Skip
                c.base = classes[bases[0].id]
            for st in c.node.body:
                if _docstring(st) or isinstance(st, ast.Pass):
                    continue
                if isinstance(st, ast.Assign) and len(st.targets) == 1 and isinstance(st.targets[0], ast.Name):
                    if st.targets[0].id == '__slots__':
                        continue
                    v = st.value
                    if isinstance(v, ast.Call) and isinstance(v.func, ast.Name) and v.func.id == 'property' and len(v.args) == 1 and not v.keywords and isinstance(v.args[0], ast.Lambda) \
                            and len(v.args[0].args.args) == 1 and not v.args[0].args.defaults and not v.args[0].args.vararg and not v.args[0].args.kwarg:
                        # name = property(lambda self: E): a read-only property written as an expression
                        lam = v.args[0]
                        fn = ast.FunctionDef(name=st.targets[0].id, args=lam.args, body=[ast.Return(value=lam.body)], decorator_list=[ast.Name(id='property', ctx=ast.Load())], returns=None, type_params=[])
                        ast.copy_location(fn, st)
                        ast.fix_missing_locations(fn)
                        c.methods[fn.name] = (fn, 'property')
                        continue
                    if isinstance(v, ast.Call) and isinstance(v.func, ast.Name) and v.func.id == 'staticmethod' and len(v.args) == 1 and not v.keywords:
                        v = v.args[0]
                    if not _const_value(v):
                        raise _Skip
                    c.consts[st.targets[0].id] = v
                    continue
                if isinstance(st, ast.AnnAssign) and isinstance(st.target, ast.Name) and st.value is not None and _const_value(st.value):
                    c.consts[st.target.id] = st.value
                    continue
                if isinstance(st, ast.FunctionDef):
                    decos = [ast.unparse(d) for d in st.decorator_list]
                    if st.name.startswith('__') and st.name.endswith('__') and st.name != '__init__':
                        raise _Skip
                    if decos == []:
                        kind = 'plain'
                    elif decos == ['property']:
                        kind = 'property'
                    elif decos == ['staticmethod']:
                        kind = 'static'
                    else:
                        raise _Skip
                    if st.args.vararg or st.args.kwarg:
                        raise _Skip
                    if any(isinstance(x, (ast.Yield, ast.YieldFrom, ast.Await, ast.Global, ast.Nonlocal)) for x in ast.walk(st)):
                        raise _Skip
                    c.methods[st.name] = (st, kind)
                    continue
                raise _Skip
            ok[name] = c
        except _Skip:
            pass
    # a base that is not rewritable makes the subclass not rewritable
    changed = True
    while changed:
        changed = False
        for name, c in list(ok.items()):
            if c.base is not None and c.base.name not in ok:
                del ok[name]
                changed = True
    return ok


def _dataclass_as_plain(n):
    """@dataclass class _C: a: int = 0 ; b: int = 0 ; <methods>   ->   the same class with the generated __init__ written out (fields in order, defaults kept)"""
    fields, body = [], []
    for st in n.body:
        if isinstance(st, ast.AnnAssign) and isinstance(st.target, ast.Name) and 'ClassVar' not in ast.unparse(st.annotation):
            if st.value is not None and not _const_value(st.value):
                return None         # field(default_factory=...) and friends
            fields.append((st.target.id, st.value))
        else:
            body.append(st)
    if not fields:
        return None
    seen_default = False
    for _, d in fields:
        if d is not None:
            seen_default = True
        elif seen_default:
            return None
    args = ast.arguments(posonlyargs=[], args=[ast.arg(arg='self')] + [ast.arg(arg=f) for f, _ in fields], vararg=None, kwonlyargs=[], kw_defaults=[], kwarg=None,
                         defaults=[copy.deepcopy(d) for _, d in fields if d is not None])
    init = ast.FunctionDef(name='__init__', args=args, body=[ast.Assign(targets=[ast.Attribute(value=ast.Name(id='self', ctx=ast.Load()), attr=f, ctx=ast.Store())], value=ast.Name(id=f, ctx=ast.Load()))
                                                             for f, _ in fields], decorator_list=[], returns=None, type_params=[])
    new = ast.ClassDef(name=n.name, bases=[], keywords=[], body=[init] + body, decorator_list=[], type_params=[])
    ast.copy_location(new, n)
    ast.fix_missing_locations(new)
    return new


def _const_value(v):
    if isinstance(v, ast.Constant):
        return True
    if isinstance(v, ast.UnaryOp) and isinstance(v.op, (ast.USub, ast.UAdd)) and isinstance(v.operand, ast.Constant):
        return True
    if isinstance(v, ast.Tuple):
        return all(_const_value(x) for x in v.elts)
    if isinstance(v, (ast.Name, ast.Attribute)):
        x = v
        while isinstance(x, ast.Attribute):
            x = x.value
        return isinstance(x, ast.Name)
    return False


def _mro(c):
    out = []
    while c is not None:
        out.append(c)
        c = c.base
    return out


def _lookup(c, attr):
    """-> ('method'|'property'|'static', FunctionDef, defining class) | ('const', value, cls) | None"""
    for k in _mro(c):
        if attr in k.methods:
            fn, kind = k.methods[attr]
            return ({'plain': 'method', 'property': 'property', 'static': 'static'}[kind], fn, k)
        if attr in k.consts:
            return ('const', k.consts[attr], k)
    return None


def _fields_of(c):
    """instance fields: every self.X store in any method of the MRO"""
    out = set()
    for k in _mro(c):
        for fn, kind in k.methods.values():
            if kind == 'static':
                continue
            slf = fn.args.args[0].arg if fn.args.args else None
            for x in ast.walk(fn):
                if isinstance(x, ast.Attribute) and isinstance(x.ctx, ast.Store) and isinstance(x.value, ast.Name) and x.value.id == slf:
                    out.add(x.attr)
    return out


def _is_super_call(e, defining, slf):
    """super().m / super(_D, self).m  ->  m"""
    if isinstance(e, ast.Attribute) and isinstance(e.value, ast.Call) and isinstance(e.value.func, ast.Name) and e.value.func.id == 'super' and not e.value.keywords:
        a = e.value.args
        if not a:
            return e.attr
        if len(a) == 2 and isinstance(a[0], ast.Name) and a[0].id == defining.name and isinstance(a[1], ast.Name) and a[1].id == slf:
            return e.attr
    return None


class _Rewriter:
    def __init__(self, tree, classes):
        self.tree, self.classes = tree, classes
        self.generated = {}         # function name -> FunctionDef
        self.todo = []

    def fname(self, c, m):
        return '%s__%s' % (c.name, m if m != '__init__' else '__init')

    def need(self, c, m, after=None):
        """make sure the specialised copy of method m for dynamic class c exists (after: start the lookup behind that class - super())"""
        start = c if after is None else after.base
        hit = _lookup(start, m) if start is not None else None
        if hit is None or hit[0] == 'const':
            return None
        kind, fn, defining = hit
        name = self.fname(c, m) if after is None else '%s__%s__after_%s' % (c.name, m if m != '__init__' else '__init', after.name.lstrip('_'))
        if name not in self.generated:
            self.generated[name] = None
            self.todo.append((name, c, fn, defining, kind))
        return name, kind

    def gen_all(self):
        while self.todo:
            name, c, fn, defining, kind = self.todo.pop()
            self.generated[name] = self.specialise(name, c, fn, defining, kind)

    def specialise(self, name, c, fn, defining, kind):
        new = copy.deepcopy(fn)
        new.name = name
        new.decorator_list = []
        new.returns = None
        if new.body and _docstring(new.body[0]) and len(new.body) > 1:
            new.body = new.body[1:]
        if kind == 'static':
            self.rewrite_uses(new, _typed_locals(new, self.classes), None, None)
            return new
        if not new.args.args:
            raise _Skip
        slf = new.args.args[0].arg
        new.args.args[0].annotation = None
        # self must not be re-bound or captured
        for x in ast.walk(new):
            if isinstance(x, ast.Name) and x.id == slf and isinstance(x.ctx, (ast.Store, ast.Del)):
                raise _Skip
            if isinstance(x, (ast.FunctionDef, ast.Lambda)) and x is not new and any(isinstance(y, ast.Name) and y.id == slf for y in ast.walk(x)):
                raise _Skip
        typed = dict(_typed_locals(new, self.classes))
        typed[slf] = c
        self.rewrite_uses(new, typed, defining, slf)
        if fn.name == '__init__':
            if any(isinstance(x, ast.Return) and x.value is not None and not (isinstance(x.value, ast.Constant) and x.value.value is None) for x in ast.walk(new)):
                raise _Skip
        return new

    def rewrite_uses(self, fn, typed, defining, slf):
        """typed: local name -> _Cls for names known to hold an instance.  Every occurrence of a typed name must be an attribute access."""
        me = self
        fields_cache = {}

        def fields(c):
            if c.name not in fields_cache:
                fields_cache[c.name] = _fields_of(c)
            return fields_cache[c.name]

        class T(ast.NodeTransformer):
            def inst_class(self, e):
                if isinstance(e, ast.Name) and e.id in typed:
                    return typed[e.id]
                if isinstance(e, ast.Call) and isinstance(e.func, ast.Name) and e.func.id in me.classes and e.func.id not in typed:
                    return me.classes[e.func.id]
                return None

            def ctor(self, call):
                c = me.classes[call.func.id]
                if any(isinstance(a, ast.Starred) for a in call.args) or any(k.arg is None for k in call.keywords):
                    raise _Skip
                name = c.name + '____new'
                if name not in me.generated:
                    me.generated[name] = None
                    init = me.need(c, '__init__')
                    hit = _lookup(c, '__init__')
                    if hit is not None:
                        ifn = hit[1]
                        args = copy.deepcopy(ifn.args)
                        args.args = args.args[1:]
                        if len(args.defaults) > len(args.args):
                            raise _Skip
                        for a in args.args + args.kwonlyargs:
                            a.annotation = None
                        pnames = [a.arg for a in args.posonlyargs + args.args]
                        if 'self' in pnames or 'self' in [a.arg for a in args.kwonlyargs]:
                            raise _Skip
                        callinit = ast.Expr(value=ast.Call(func=ast.Name(id=init[0], ctx=ast.Load()), args=[ast.Name(id='self', ctx=ast.Load())] + [ast.Name(id=p, ctx=ast.Load()) for p in pnames],
                                                           keywords=[ast.keyword(arg=a.arg, value=ast.Name(id=a.arg, ctx=ast.Load())) for a in args.kwonlyargs]))
                        body = [ast.Assign(targets=[ast.Name(id='self', ctx=ast.Store())], value=ast.Dict(keys=[], values=[])), callinit, ast.Return(value=ast.Name(id='self', ctx=ast.Load()))]
                    else:
                        args = ast.arguments(posonlyargs=[], args=[], vararg=None, kwonlyargs=[], kw_defaults=[], kwarg=None, defaults=[])
                        body = [ast.Return(value=ast.Dict(keys=[], values=[]))]
                    f = ast.FunctionDef(name=name, args=args, body=body, decorator_list=[], returns=None, type_params=[])
                    me.generated[name] = f
                return ast.Call(func=ast.Name(id=name, ctx=ast.Load()), args=[self.visit(a) for a in call.args], keywords=[ast.keyword(arg=k.arg, value=self.visit(k.value)) for k in call.keywords])

            def visit_Call(self, node):
                f = node.func
                # super().__init__(...)
                if defining is not None:
                    m = _is_super_call(f, defining, slf)
                    if m is not None:
                        if m != '__init__':
                            raise _Skip
                        c = typed[slf]
                        tgt = me.need(c, '__init__', after=defining)
                        args = [self.visit(a) for a in node.args]
                        kws = [ast.keyword(arg=k.arg, value=self.visit(k.value)) for k in node.keywords]
                        if tgt is None:
                            if args or kws:
                                raise _Skip
                            return ast.copy_location(ast.Constant(value=None), node)
                        return ast.copy_location(ast.Call(func=ast.Name(id=tgt[0], ctx=ast.Load()), args=[ast.Name(id=slf, ctx=ast.Load())] + args, keywords=kws), node)
                if isinstance(f, ast.Attribute):
                    c = self.inst_class(f.value)
                    if c is not None:
                        hit = _lookup(c, f.attr)
                        recv = self.ctor(f.value) if isinstance(f.value, ast.Call) else ast.Name(id=f.value.id, ctx=ast.Load())
                        args = [self.visit(a) for a in node.args]
                        kws = [ast.keyword(arg=k.arg, value=self.visit(k.value)) for k in node.keywords]
                        if hit is not None and hit[0] == 'method':
                            nm, _ = me.need(c, f.attr)
                            return ast.copy_location(ast.Call(func=ast.Name(id=nm, ctx=ast.Load()), args=[recv] + args, keywords=kws), node)
                        if hit is not None and hit[0] == 'static':
                            if isinstance(f.value, ast.Call):
                                raise _Skip
                            nm, _ = me.need(c, f.attr)
                            return ast.copy_location(ast.Call(func=ast.Name(id=nm, ctx=ast.Load()), args=args, keywords=kws), node)
                        # a callable held in a class constant / a field / a property: call the attribute's value
                        node.func = self.visit(f)
                        node.args, node.keywords = args, kws
                        return node
                    # _C.static(...) / _C.CONST(...)
                    if isinstance(f.value, ast.Name) and f.value.id in me.classes and f.value.id not in typed:
                        c = me.classes[f.value.id]
                        hit = _lookup(c, f.attr)
                        args = [self.visit(a) for a in node.args]
                        kws = [ast.keyword(arg=k.arg, value=self.visit(k.value)) for k in node.keywords]
                        if hit is not None and hit[0] == 'static':
                            nm, _ = me.need(c, f.attr)
                            return ast.copy_location(ast.Call(func=ast.Name(id=nm, ctx=ast.Load()), args=args, keywords=kws), node)
                        if hit is not None and hit[0] == 'const':
                            return ast.copy_location(ast.Call(func=copy.deepcopy(hit[1]), args=args, keywords=kws), node)
                        raise _Skip
                if isinstance(f, ast.Name) and f.id in me.classes and f.id not in typed:
                    # a constructor call in a position that is not a recognised receiver: handled by the caller of visit (assignment to a typed local) or it escapes
                    if getattr(node, '_devirt_ok', False):
                        return ast.copy_location(self.ctor(node), node)
                    raise _Skip
                return self.generic_visit(node)

            def visit_Attribute(self, node):
                c = self.inst_class(node.value)
                if c is not None:
                    recv = self.ctor(node.value) if isinstance(node.value, ast.Call) else ast.Name(id=node.value.id, ctx=ast.Load())
                    hit = _lookup(c, node.attr)
                    if isinstance(node.ctx, ast.Load):
                        if hit is None:
                            if node.attr not in fields(c):
                                raise _Skip
                            return ast.copy_location(ast.Subscript(value=recv, slice=ast.Constant(value=node.attr), ctx=ast.Load()), node)
                        if hit[0] == 'property':
                            nm, _ = me.need(c, node.attr)
                            return ast.copy_location(ast.Call(func=ast.Name(id=nm, ctx=ast.Load()), args=[recv], keywords=[]), node)
                        if hit[0] == 'const':
                            if node.attr in fields(c):
                                raise _Skip         # class-level default shadowed by an instance field
                            if isinstance(node.value, ast.Call):
                                raise _Skip         # the constructor call would vanish with its effects
                            return ast.copy_location(copy.deepcopy(hit[1]), node)
                        raise _Skip                 # bound method / static function taken as a value
                    if isinstance(node.ctx, ast.Store):
                        if hit is not None or isinstance(node.value, ast.Call):
                            raise _Skip
                        return ast.copy_location(ast.Subscript(value=recv, slice=ast.Constant(value=node.attr), ctx=ast.Store()), node)
                    raise _Skip
                if isinstance(node.value, ast.Name) and node.value.id in me.classes and node.value.id not in typed:
                    c = me.classes[node.value.id]
                    hit = _lookup(c, node.attr)
                    if hit is not None and hit[0] == 'const' and isinstance(node.ctx, ast.Load):
                        return ast.copy_location(copy.deepcopy(hit[1]), node)
                    raise _Skip
                return self.generic_visit(node)

            def visit_Name(self, node):
                if node.id in typed:
                    raise _Skip         # the instance itself used as a value: it escapes
                if node.id in me.classes:
                    raise _Skip         # the class used as a value
                return node

            def visit_Assign(self, node):
                # x = _C(...) for a typed local
                if len(node.targets) == 1 and isinstance(node.targets[0], ast.Name) and node.targets[0].id in typed and isinstance(node.value, ast.Call) \
                        and isinstance(node.value.func, ast.Name) and node.value.func.id in me.classes:
                    node.value = ast.copy_location(self.ctor(node.value), node.value)
                    return node
                return self.generic_visit(node)

            def visit_FunctionDef(self, node):
                if node is fn:
                    node.body = [self.visit(s) for s in node.body]
                    # flatten statement lists returned by visitors (none here) and keep defaults untouched
                    return node
                # nested defs may not touch typed names (checked by visit_Name through generic_visit)
                return self.generic_visit(node)
        T().visit(fn)
        ast.fix_missing_locations(fn)


def _typed_locals(fn, classes):
    """locals bound exactly once, to a constructor call of a rewritable class, outside loops is not required (a fresh object per iteration is fine)"""
    binds = {}
    params = {a.arg for a in fn.args.posonlyargs + fn.args.args + fn.args.kwonlyargs} | ({fn.args.vararg.arg} if fn.args.vararg else set()) | ({fn.args.kwarg.arg} if fn.args.kwarg else set())
    for x in ast.walk(fn):
        if isinstance(x, ast.Name) and isinstance(x.ctx, (ast.Store, ast.Del)):
            binds[x.id] = binds.get(x.id, 0) + 1
        if isinstance(x, ast.arg) and x.arg not in params:
            binds[x.arg] = binds.get(x.arg, 0) + 2
        if isinstance(x, (ast.FunctionDef, ast.ClassDef)) and x is not fn:
            binds[x.name] = binds.get(x.name, 0) + 2
    out = {}
    for x in ast.walk(fn):
        if isinstance(x, ast.Assign) and len(x.targets) == 1 and isinstance(x.targets[0], ast.Name) and isinstance(x.value, ast.Call) and isinstance(x.value.func, ast.Name) \
                and x.value.func.id in classes:
            nm = x.targets[0].id
            if binds.get(nm, 0) == 1 and nm not in params and x.value.func.id not in binds and x.value.func.id not in params:
                out[nm] = classes[x.value.func.id]
    return out


def devirtualize(tree):
    """rewrite the module in place; returns the names of the classes that were replaced"""
    classes = _collect(tree)
    if not classes:
        return []
    for _round in range(len(classes) + 1):
        if not classes:
            return []
        work = copy.deepcopy(tree)
        wclasses = _collect(work)
        wclasses = {k: v for k, v in wclasses.items() if k in classes}
        for c in wclasses.values():
            if c.base is not None and c.base.name not in wclasses:
                c.base = None
        bad = set()
        rw = _Rewriter(work, wclasses)
        # every function of the module that is not a method of a rewritable class
        hosts = []
        for n in work.body:
            if isinstance(n, ast.FunctionDef):
                hosts.append(n)
            elif isinstance(n, ast.ClassDef) and n.name not in wclasses:
                hosts.extend(m for m in n.body if isinstance(m, ast.FunctionDef))
        try:
            for h in hosts:
                mentioned = {x.id for x in ast.walk(h) if isinstance(x, ast.Name) and x.id in wclasses}
                if not mentioned:
                    continue
                try:
                    rw.rewrite_uses(h, _typed_locals(h, wclasses), None, None)
                except _Skip:
                    bad |= mentioned
            # module-level statements and other class bodies must not mention the classes at all
            for n in work.body:
                if isinstance(n, (ast.FunctionDef,)):
                    continue
                if isinstance(n, ast.ClassDef):
                    if n.name in wclasses:
                        continue
                    for st in n.body:
                        if not isinstance(st, ast.FunctionDef):
                            bad |= {x.id for x in ast.walk(st) if isinstance(x, ast.Name) and x.id in wclasses}
                    bad |= {x.id for b in n.bases + n.decorator_list for x in ast.walk(b) if isinstance(x, ast.Name) and x.id in wclasses}
                    continue
                bad |= {x.id for x in ast.walk(n) if isinstance(x, ast.Name) and x.id in wclasses}
            if not bad:
                try:
                    rw.gen_all()
                except _Skip:
                    # a method body that cannot be rewritten: find out which class by trying them one at a time is expensive - drop all classes whose methods were requested
                    bad |= {c.name for c in wclasses.values()}
        except _Skip:
            bad |= set(wclasses)
        if bad:
            # classes related to a bad one by inheritance go with it
            grow = True
            while grow:
                grow = False
                for c in wclasses.values():
                    rel = {k.name for k in _mro(c)}
                    if rel & bad and not rel <= bad:
                        bad |= rel
                        grow = True
            classes = {k: v for k, v in classes.items() if k not in bad}
            continue
        # commit: drop the class definitions, add the generated functions where the first class stood
        gen = [f for f in rw.generated.values() if f is not None]
        if any(f is None for f in rw.generated.values()):
            return []
        used = {x.id for h in hosts for x in ast.walk(h) if isinstance(x, ast.Name)} | {x.id for f in gen for x in ast.walk(f) if isinstance(x, ast.Name)}
        if not any(f.name in used for f in gen) and not gen:
            # classes that are never instantiated / referenced: leave the module alone
            return []
        first = min(i for i, n in enumerate(work.body) if isinstance(n, ast.ClassDef) and n.name in wclasses)
        anchor = work.body[first]
        for f in gen:
            ast.copy_location(f, anchor)
            ast.fix_missing_locations(f)
        body = []
        for i, n in enumerate(work.body):
            if i == first:
                body.extend(gen)
            if isinstance(n, ast.ClassDef) and n.name in wclasses:
                continue
            body.append(n)
        # the generated functions must not collide with existing names
        existing = {n.name for n in tree.body if isinstance(n, (ast.FunctionDef, ast.ClassDef))}
        if any(f.name in existing for f in gen):
            return []
        tree.body[:] = body
        ast.fix_missing_locations(tree)
        return sorted(wclasses)
    return []


# ------------------------------------------------------------------------------------------------ value records kept in local containers
def _value_record_classes(tree):
    """private classes that are nothing but a constructor storing its parameters: {name: (fields in parameter order, defaults {field: expr})}"""
    out = {}
    for n in tree.body:
        if not (isinstance(n, ast.ClassDef) and n.name.startswith('_') and not n.name.startswith('__') and not n.decorator_list and not n.keywords):
            continue
        if any(not (isinstance(b, ast.Name) and b.id == 'object') for b in n.bases):
            continue
        init = None
        ok = True
        for st in n.body:
            if _docstring(st) or isinstance(st, ast.Pass):
                continue
            if isinstance(st, ast.Assign) and len(st.targets) == 1 and isinstance(st.targets[0], ast.Name) and st.targets[0].id == '__slots__':
                continue
            if isinstance(st, ast.FunctionDef) and st.name == '__init__' and not st.decorator_list and init is None:
                init = st
                continue
            ok = False
        if not ok or init is None:
            continue
        a = init.args
        if a.vararg or a.kwarg or a.kwonlyargs or a.posonlyargs or len(a.args) < 2:
            continue
        slf = a.args[0].arg
        params = [x.arg for x in a.args[1:]]
        field_of = {}
        for st in init.body:
            if _docstring(st) or isinstance(st, ast.Pass):
                continue
            if isinstance(st, ast.Assign) and len(st.targets) == 1 and isinstance(st.targets[0], ast.Attribute) and isinstance(st.targets[0].value, ast.Name) \
                    and st.targets[0].value.id == slf and isinstance(st.value, ast.Name) and st.value.id in params and st.value.id not in field_of:
                field_of[st.value.id] = st.targets[0].attr
                continue
            ok = False
        if not ok or set(field_of) != set(params) or len(set(field_of.values())) != len(params):
            continue
        defaults = {}
        for p, d in zip(params[len(params) - len(a.defaults):], a.defaults):
            if not _const_value(d):
                ok = False
            defaults[field_of[p]] = d
        if ok:
            out[n.name] = ([field_of[p] for p in params], defaults, params)
    return out


def tuple_records(tree):
    """value records that only live in locals and local lists become tuples / field locals:
         stack = [_V(root)] ; v = stack.pop() ; v.node ; stack.append(_V(n, expanded=True))
      -> stack = [(root, False)] ; v__node, v__expanded = stack.pop() ; v__node ; stack.append((n, True))"""
    recs = _value_record_classes(tree)
    if not recs:
        return []
    done = []
    for cname, (fields, defaults, params) in recs.items():
        work = copy.deepcopy(tree)
        try:
            _tuple_record_class(work, cname, fields, defaults, params)
        except _Skip:
            continue
        tree.body[:] = work.body
        done.append(cname)
    if done:
        ast.fix_missing_locations(tree)
    return done


def _tuple_record_class(tree, cname, fields, defaults, params):
    cls = [n for n in tree.body if isinstance(n, ast.ClassDef) and n.name == cname][0]
    # instances are never modified: no attribute store to a field name anywhere outside the class (any object)
    for n in ast.walk(tree):
        if isinstance(n, ast.Attribute) and isinstance(n.ctx, (ast.Store, ast.Del)) and n.attr in fields and not any(x is n for x in ast.walk(cls)):
            raise _Skip
    hosts = []
    for n in tree.body:
        if isinstance(n, ast.FunctionDef):
            hosts.append(n)
        elif isinstance(n, ast.ClassDef) and n is not cls:
            hosts.extend(m for m in n.body if isinstance(m, ast.FunctionDef))
    for n in tree.body:
        if n is cls or isinstance(n, ast.FunctionDef):
            continue
        if isinstance(n, ast.ClassDef):
            for st in n.body:
                if not isinstance(st, ast.FunctionDef) and any(isinstance(x, ast.Name) and x.id == cname for x in ast.walk(st)):
                    raise _Skip
            continue
        if any(isinstance(x, ast.Name) and x.id == cname for x in ast.walk(n)):
            raise _Skip

    def ctor_tuple(call):
        if any(isinstance(a, ast.Starred) for a in call.args) or any(k.arg is None or k.arg not in params for k in call.keywords) or len(call.args) > len(params):
            raise _Skip
        bound = dict(zip(params, call.args))
        for k in call.keywords:
            if k.arg in bound:
                raise _Skip
            bound[k.arg] = k.value
        elts = []
        for p, f in zip(params, fields):
            if p in bound:
                elts.append(bound[p])
            elif f in defaults:
                elts.append(copy.deepcopy(defaults[f]))
            else:
                raise _Skip
        return ast.Tuple(elts=elts, ctx=ast.Load())

    def is_ctor(e):
        return isinstance(e, ast.Call) and isinstance(e.func, ast.Name) and e.func.id == cname

    for h in hosts:
        if not any(isinstance(x, ast.Name) and x.id == cname for x in ast.walk(h)):
            continue
        parents = {}
        for x in ast.walk(h):
            for c in ast.iter_child_nodes(x):
                parents[id(c)] = x
        hparams = {a.arg for a in h.args.posonlyargs + h.args.args + h.args.kwonlyargs}
        # 1. containers: locals bound once to a list display of constructor calls
        stores = {}
        for x in ast.walk(h):
            if isinstance(x, ast.Name) and isinstance(x.ctx, (ast.Store, ast.Del)):
                stores.setdefault(x.id, []).append(x)
        conts = set()
        for x in ast.walk(h):
            if isinstance(x, ast.Assign) and len(x.targets) == 1 and isinstance(x.targets[0], ast.Name) and isinstance(x.value, ast.List) \
                    and all(is_ctor(e) for e in x.value.elts) and len(stores.get(x.targets[0].id, [])) == 1 and x.targets[0].id not in hparams:
                conts.add(x.targets[0].id)
        # 2. element variables: every binding is L.pop(..) / L[..] / a constructor call / a for target over L
        typed = set()
        for nm, sts in stores.items():
            if nm in hparams or nm in conts:
                continue
            ok = True
            for s_ in sts:
                par = parents.get(id(s_))
                if isinstance(par, ast.Assign) and par.targets == [s_]:
                    v = par.value
                    if is_ctor(v):
                        continue
                    if isinstance(v, ast.Call) and isinstance(v.func, ast.Attribute) and v.func.attr == 'pop' and isinstance(v.func.value, ast.Name) and v.func.value.id in conts:
                        continue
                    if isinstance(v, ast.Subscript) and isinstance(v.value, ast.Name) and v.value.id in conts and not isinstance(v.slice, ast.Slice):
                        continue
                    ok = False
                elif isinstance(par, ast.For) and par.target is s_ and ((isinstance(par.iter, ast.Name) and par.iter.id in conts)
                                                                         or (isinstance(par.iter, ast.Call) and isinstance(par.iter.func, ast.Name) and par.iter.func.id == 'reversed'
                                                                             and len(par.iter.args) == 1 and isinstance(par.iter.args[0], ast.Name) and par.iter.args[0].id in conts)):
                    continue
                else:
                    ok = False
            if ok and sts:
                typed.add(nm)
        typed = {t for t in typed if any(True for _ in stores[t])}
        # 3. every use must be of a recognised form
        for x in ast.walk(h):
            if isinstance(x, ast.Name) and x.id == cname:
                par = parents.get(id(x))
                if not (isinstance(par, ast.Call) and par.func is x):
                    raise _Skip
                gp = parents.get(id(par))
                if isinstance(gp, ast.Assign) and gp.value is par and len(gp.targets) == 1 and isinstance(gp.targets[0], ast.Name) and gp.targets[0].id in typed:
                    continue
                if isinstance(gp, ast.List) and isinstance(parents.get(id(gp)), ast.Assign) and isinstance(parents[id(gp)].targets[0], ast.Name) and parents[id(gp)].targets[0].id in conts:
                    continue
                if isinstance(gp, ast.Call) and isinstance(gp.func, ast.Attribute) and gp.func.attr in ('append', 'insert') and isinstance(gp.func.value, ast.Name) \
                        and gp.func.value.id in conts and gp.args and gp.args[-1] is par:
                    continue
                raise _Skip
            if isinstance(x, ast.Name) and x.id in typed and isinstance(x.ctx, ast.Load):
                par = parents.get(id(x))
                if isinstance(par, ast.Attribute) and par.value is x and par.attr in fields and isinstance(par.ctx, ast.Load):
                    continue
                if isinstance(par, ast.Call) and isinstance(par.func, ast.Attribute) and par.func.attr in ('append', 'insert') and isinstance(par.func.value, ast.Name) \
                        and par.func.value.id in conts and par.args and par.args[-1] is x:
                    continue
                raise _Skip
            if isinstance(x, ast.Name) and x.id in conts and isinstance(x.ctx, ast.Load):
                par = parents.get(id(x))
                gp = parents.get(id(par)) if par is not None else None
                if isinstance(par, ast.Attribute) and par.value is x and par.attr in ('append', 'pop', 'insert', 'clear', 'reverse') and isinstance(gp, ast.Call) and gp.func is par:
                    if par.attr in ('append', 'insert') and not (is_ctor(gp.args[-1]) or (isinstance(gp.args[-1], ast.Name) and gp.args[-1].id in typed)):
                        raise _Skip
                    if par.attr == 'pop' and not (isinstance(parents.get(id(gp)), ast.Assign) and isinstance(parents[id(gp)].targets[0], ast.Name) and parents[id(gp)].targets[0].id in typed):
                        raise _Skip
                    continue
                if isinstance(par, (ast.While, ast.If, ast.IfExp)) and par.test is x:
                    continue
                if isinstance(par, ast.UnaryOp) and isinstance(par.op, ast.Not):
                    continue
                if isinstance(par, ast.Call) and isinstance(par.func, ast.Name) and par.func.id in ('len', 'bool', 'reversed') and par.args == [x]:
                    if par.func.id == 'reversed' and not (isinstance(gp, ast.For) and gp.iter is par):
                        raise _Skip
                    continue
                if isinstance(par, ast.For) and par.iter is x:
                    continue
                if isinstance(par, ast.Subscript) and par.value is x and isinstance(par.ctx, ast.Load) and not isinstance(par.slice, ast.Slice) \
                        and isinstance(gp, ast.Assign) and isinstance(gp.targets[0], ast.Name) and gp.targets[0].id in typed:
                    continue
                raise _Skip
        existing = {x.id for x in ast.walk(h) if isinstance(x, ast.Name)} | hparams
        for t in typed:
            if any('%s__%s' % (t, f) in existing for f in fields):
                raise _Skip

        def locals_of(t, ctx):
            return ast.Tuple(elts=[ast.Name(id='%s__%s' % (t, f), ctx=ctx()) for f in fields], ctx=ctx())

        class T(ast.NodeTransformer):
            def visit_Call(self, n):
                self.generic_visit(n)
                if is_ctor(n):
                    return ast.copy_location(ctor_tuple(n), n)
                return n

            def visit_Attribute(self, n):
                if isinstance(n.value, ast.Name) and n.value.id in typed and n.attr in fields and isinstance(n.ctx, ast.Load):
                    return ast.copy_location(ast.Name(id='%s__%s' % (n.value.id, n.attr), ctx=ast.Load()), n)
                return self.generic_visit(n)

            def visit_Name(self, n):
                if n.id in typed:
                    return ast.copy_location(locals_of(n.id, ast.Store if isinstance(n.ctx, ast.Store) else ast.Load), n)
                return n
        T().visit(h)
        ast.fix_missing_locations(h)
    if any(isinstance(x, ast.Name) and x.id == cname for n in tree.body if n is not cls for x in ast.walk(n)):
        raise _Skip
    tree.body.remove(cls)


# ------------------------------------------------------------------------------------------------ private base classes / mixins
def _c3(name, bases_of, memo=None):
    """C3 linearisation over the classes of this module; a base that is not a class of the module is a leaf named by its text"""
    memo = {} if memo is None else memo
    if name in memo:
        return memo[name]
    bases = bases_of.get(name)
    if bases is None:
        return [name]
    seqs = [list(_c3(b, bases_of, memo)) for b in bases] + [list(bases)]
    out = [name]
    while any(seqs):
        seqs = [s for s in seqs if s]
        for s in seqs:
            h = s[0]
            if not any(h in t[1:] for t in seqs):
                break
        else:
            raise _Skip
        out.append(h)
        for s in seqs:
            if s and s[0] == h:
                del s[0]
    memo[name] = out
    return out


def flatten_private_bases(tree):
    """class C(_P, Base): ...      with _P a private class of this module that is only ever used as a base class
       ->  class C(Base): <own members> + <the members C inherits from _P>
    The private bases must come right after C in C's MRO (so their members win over everything that follows, as before).  A method of _P that C overrides and reaches
    through super() is kept under the private name _P__name and the super() call becomes self._P__name(...).  Class-level constants with private names that nothing
    assigns are substituted into the methods (self._switch -> "gradient__")."""
    classes = {n.name: n for n in tree.body if isinstance(n, ast.ClassDef)}
    if not classes:
        return []
    bases_of = {}
    for name, c in classes.items():
        bs = []
        for b in c.bases:
            if isinstance(b, ast.Name) and b.id == 'object':
                continue
            bs.append(b.id if isinstance(b, ast.Name) and b.id in classes else '<%s>' % ast.unparse(b))
        bases_of[name] = bs
    # private classes used only as bases
    cand = set()
    for name, c in classes.items():
        if not (name.startswith('_') and not name.startswith('__')) or c.decorator_list or c.keywords:
            continue
        if any(isinstance(st, ast.FunctionDef) and st.name in ('__init_subclass__', '__new__', '__class_getitem__', '__set_name__') for st in c.body):
            continue
        ok = True
        for st in c.body:
            if _docstring(st) or isinstance(st, ast.Pass) or isinstance(st, ast.FunctionDef):
                if isinstance(st, ast.FunctionDef) and any(ast.unparse(d) not in ('property', 'staticmethod', 'classmethod') and not ast.unparse(d).endswith('.setter') for d in st.decorator_list):
                    ok = False
                continue
            if isinstance(st, ast.Assign) and len(st.targets) == 1 and isinstance(st.targets[0], ast.Name):
                if st.targets[0].id == '__slots__' and not (isinstance(st.value, (ast.Tuple, ast.List)) and not st.value.elts):
                    ok = False
                continue
            if isinstance(st, ast.AnnAssign) and isinstance(st.target, ast.Name):
                continue
            ok = False
        if not ok:
            continue
        refs_ok = True
        parents = {}
        for x in ast.walk(tree):
            for ch in ast.iter_child_nodes(x):
                parents[id(ch)] = x
        for x in ast.walk(tree):
            if isinstance(x, ast.Name) and x.id == name:
                par = parents.get(id(x))
                if isinstance(par, ast.ClassDef) and x in par.bases:
                    continue
                if isinstance(par, ast.Call) and isinstance(par.func, ast.Name) and par.func.id == 'super' and par.args and par.args[0] is x:
                    continue
                refs_ok = False
        if refs_ok and any(name in bs for bs in bases_of.values()):
            cand.add(name)
    if not cand:
        return []
    done = set()
    memo = {}
    for name, c in list(classes.items()):
        if name in cand:
            continue
        try:
            mro = _c3(name, bases_of, memo)
        except _Skip:
            continue
        prefix = []
        for k in mro[1:]:
            if k in cand:
                prefix.append(k)
            else:
                break
        if not prefix:
            continue
        if any(k in cand for k in mro[1 + len(prefix):]):
            continue            # a private base behind a non-private one: its members do not have priority, leave everything
        try:
            _flatten_into(tree, c, [classes[k] for k in prefix], mro, classes)
        except _Skip:
            continue
        done |= set(prefix)
    # drop private bases nobody references any more
    removed = []
    for k in sorted(done):
        if not any(isinstance(x, ast.Name) and x.id == k for n in tree.body if n is not classes[k] for x in ast.walk(n)):
            tree.body.remove(classes[k])
            removed.append(k)
    if done:
        ast.fix_missing_locations(tree)
    return removed


def _members(c):
    out = {}
    for st in c.body:
        if isinstance(st, ast.FunctionDef):
            key = st.name
            if any(ast.unparse(d).endswith('.setter') for d in st.decorator_list):
                key = st.name + '.setter'
            out[key] = st
        elif isinstance(st, ast.Assign) and len(st.targets) == 1 and isinstance(st.targets[0], ast.Name):
            out[st.targets[0].id] = st
        elif isinstance(st, ast.AnnAssign) and isinstance(st.target, ast.Name):
            out[st.target.id] = st
    return out


def _super_calls(fn, owner_name):
    """[(Call node of super().m(...), m)] in fn, written as super() or super(Owner, self)"""
    out = []
    slf = fn.args.args[0].arg if fn.args.args else None
    for x in ast.walk(fn):
        if isinstance(x, ast.Call) and isinstance(x.func, ast.Attribute) and isinstance(x.func.value, ast.Call) and isinstance(x.func.value.func, ast.Name) \
                and x.func.value.func.id == 'super':
            a = x.func.value.args
            if not a or (len(a) == 2 and isinstance(a[0], ast.Name) and a[0].id == owner_name and isinstance(a[1], ast.Name) and a[1].id == slf):
                out.append((x, x.func.attr))
            else:
                raise _Skip
        elif isinstance(x, ast.Call) and isinstance(x.func, ast.Name) and x.func.id == 'super':
            par_ok = any(isinstance(y, ast.Attribute) and y.value is x for y in ast.walk(fn))
            if not par_ok:
                raise _Skip
    return out


def _flatten_into(tree, c, privs, mro, classes):
    own = _members(c)
    chain = [c] + privs                 # C and its private bases in MRO order
    names = [k.name for k in chain]
    provided = [ _members(k) for k in chain ]
    new_members = []
    renamed = {}                        # (class name, method) -> private copy name

    def next_provider(idx, m):
        for j in range(idx + 1, len(chain)):
            if m in provided[j]:
                return j
        return None
    # super() calls inside the chain
    work = [copy.deepcopy(k) for k in chain]
    wprov = [_members(k) for k in work]
    for idx, k in enumerate(work):
        for key, st in wprov[idx].items():
            if not isinstance(st, ast.FunctionDef):
                continue
            for call, m in _super_calls(st, chain[idx].name):
                j = next_provider(idx, m)
                if j is None:
                    # goes to the remaining bases: for C itself that is still what super() means; for a private base the call moves into C, where super() now
                    # starts behind C - the same remaining bases (the private prefix contributes nothing for m)
                    if idx > 0:
                        if m == '__init__' and not [b for b in mro[len(chain):] if b != 'object']:
                            # object.__init__(): nothing
                            if call.args or call.keywords:
                                raise _Skip
                            call.func = ast.Name(id='__devirt_noop', ctx=ast.Load())
                            continue
                        call.func.value = ast.Call(func=ast.Name(id='super', ctx=ast.Load()), args=[], keywords=[])
                    continue
                tgt = wprov[j][m]
                if not isinstance(tgt, ast.FunctionDef) or tgt.decorator_list:
                    raise _Skip
                nm = '%s__%s' % (chain[j].name, m.strip('_') if m.startswith('__') else m)
                renamed[(j, m)] = nm
                slf = st.args.args[0].arg
                call.func = ast.Attribute(value=ast.Name(id=slf, ctx=ast.Load()), attr=nm, ctx=ast.Load())
    # merge: first definition in MRO order wins; shadowed methods that are reached through super() are kept under their private name
    seen = set(wprov[0])
    body = list(work[0].body)
    for idx in range(1, len(work)):
        for key, st in wprov[idx].items():
            if (idx, key) in renamed:
                cp = copy.deepcopy(st)
                cp.name = renamed[(idx, key)]
                body.append(cp)
                if key in seen:
                    continue
            if key in seen:
                continue
            seen.add(key)
            body.append(st)
    for (j, m), nm in renamed.items():
        if j == 0:
            raise _Skip
    # `__devirt_noop()` statements vanish
    class Z(ast.NodeTransformer):
        def visit_Expr(self, n):
            if isinstance(n.value, ast.Call) and isinstance(n.value.func, ast.Name) and n.value.func.id == '__devirt_noop':
                return ast.copy_location(ast.Pass(), n)
            return n
    newc = work[0]
    newc.body = body
    Z().visit(newc)
    if any(isinstance(x, ast.Name) and x.id == '__devirt_noop' for x in ast.walk(newc)):
        raise _Skip
    newc.bases = [b for b in c.bases if not (isinstance(b, ast.Name) and b.id in names[1:])]
    # private class-level constants that nothing assigns: substitute into the methods
    consts = {}
    for st in newc.body:
        if isinstance(st, (ast.Assign, ast.AnnAssign)):
            t = st.targets[0] if isinstance(st, ast.Assign) else st.target
            v = st.value
            if isinstance(t, ast.Name) and t.id.startswith('_') and not t.id.startswith('__') and v is not None and isinstance(v, ast.Constant):
                consts[t.id] = v
    for x in ast.walk(tree):
        if isinstance(x, ast.Attribute) and isinstance(x.ctx, (ast.Store, ast.Del)) and x.attr in consts:
            consts.pop(x.attr, None)
    # another class of the module deriving from C could override them
    for k in classes.values():
        if k is not c and any(isinstance(b, ast.Name) and b.id == c.name for b in k.bases):
            for key in _members(k):
                consts.pop(key, None)
    if consts:
        class S(ast.NodeTransformer):
            def visit_Attribute(self, n):
                self.generic_visit(n)
                if isinstance(n.ctx, ast.Load) and n.attr in consts and isinstance(n.value, ast.Name) and n.value.id in ('self', 'cls'):
                    return ast.copy_location(copy.deepcopy(consts[n.attr]), n)
                return n
        for st in newc.body:
            if isinstance(st, ast.FunctionDef):
                S().visit(st)
        newc.body = [st for st in newc.body if not (isinstance(st, (ast.Assign, ast.AnnAssign)) and isinstance(st.targets[0] if isinstance(st, ast.Assign) else st.target, ast.Name)
                                                   and (st.targets[0] if isinstance(st, ast.Assign) else st.target).id in consts)] or [ast.Pass()]
    i = tree.body.index(c)
    tree.body[i] = ast.copy_location(newc, c)
    classes[c.name] = newc
