"""Definite assignment: local names that may be read before being bound on some CFG path
(loop variable used after a loop that may run zero times, name bound in one branch only)."""
import ast
import networkx as nx
from .cfg import CFG, ENTRY, EXIT, RAISE


def _targets(t):
    if isinstance(t, ast.Name):
        yield t.id
    elif isinstance(t, (ast.Tuple, ast.List)):
        for e in t.elts:
            yield from _targets(e)
    elif isinstance(t, ast.Starred):
        yield from _targets(t.value)


def defs_of(stmt):
    """names bound by this statement itself (header only for compound statements)"""
    out = set()
    if isinstance(stmt, ast.Assign):
        for t in stmt.targets:
            out |= set(_targets(t))
    elif isinstance(stmt, (ast.AugAssign, ast.AnnAssign)):
        out |= set(_targets(stmt.target))
    elif isinstance(stmt, (ast.For, ast.AsyncFor)):
        pass        # target is bound only when the loop body is entered (edge label True)
    elif isinstance(stmt, (ast.With, ast.AsyncWith)):
        for it in stmt.items:
            if it.optional_vars is not None:
                out |= set(_targets(it.optional_vars))
    elif isinstance(stmt, (ast.FunctionDef, ast.AsyncFunctionDef, ast.ClassDef)):
        out.add(stmt.name)
    elif isinstance(stmt, (ast.Import, ast.ImportFrom)):
        for a in stmt.names:
            out.add((a.asname or a.name).split('.')[0])
    elif isinstance(stmt, ast.ExceptHandler):
        if stmt.name:
            out.add(stmt.name)
    for n in ast.walk(stmt) if not isinstance(stmt, (ast.If, ast.For, ast.While, ast.With, ast.Try, ast.FunctionDef, ast.ClassDef)) else []:
        if isinstance(n, ast.NamedExpr):
            out |= set(_targets(n.target))
    return out


def uses_of(stmt):
    """names read by the statement header (not by nested bodies)"""
    def names(e):
        if e is None:
            return set()
        u = {n.id for n in ast.walk(e) if isinstance(n, ast.Name) and isinstance(n.ctx, ast.Load)}
        for n in ast.walk(e):
            if isinstance(n, (ast.ListComp, ast.SetComp, ast.GeneratorExp, ast.DictComp)):
                for g in n.generators:
                    u -= set(_targets(g.target))
            if isinstance(n, ast.Lambda):
                u -= {a.arg for a in n.args.args}
        return u
    if isinstance(stmt, ast.If) or isinstance(stmt, ast.While):
        return names(stmt.test)
    if isinstance(stmt, (ast.For, ast.AsyncFor)):
        return names(stmt.iter)
    if isinstance(stmt, (ast.With, ast.AsyncWith)):
        s = set()
        for it in stmt.items:
            s |= names(it.context_expr)
        return s
    if isinstance(stmt, ast.Try):
        return set()
    if isinstance(stmt, (ast.FunctionDef, ast.AsyncFunctionDef, ast.ClassDef)):
        return set()
    if isinstance(stmt, ast.ExceptHandler):
        return names(stmt.type)
    u = names(stmt)
    if isinstance(stmt, ast.AugAssign) and isinstance(stmt.target, ast.Name):
        u.add(stmt.target.id)
    # comprehension targets are local to the comprehension
    for n in ast.walk(stmt):
        if isinstance(n, (ast.ListComp, ast.SetComp, ast.GeneratorExp, ast.DictComp)):
            for g in n.generators:
                u -= set(_targets(g.target))
        if isinstance(n, ast.Lambda):
            u -= {a.arg for a in n.args.args}
    return u


def maybe_unbound(fnode):
    """[(name, stmt)]: reads of a local name that is not definitely assigned on every path reaching the statement"""
    cfg = CFG(fnode)
    a = fnode.args
    params = {x.arg for x in a.posonlyargs + a.args + a.kwonlyargs} | ({a.vararg.arg} if a.vararg else set()) | ({a.kwarg.arg} if a.kwarg else set())
    local = set()
    for s in cfg.all_stmts():
        local |= defs_of(s)
        if isinstance(s, (ast.For, ast.AsyncFor)):
            local |= set(_targets(s.target))
    for n in ast.walk(fnode):
        if isinstance(n, (ast.Global, ast.Nonlocal)):
            local -= set(n.names)
    g = cfg.g
    allnames = frozenset(local)
    IN = {n: allnames for n in g.nodes}
    IN[ENTRY] = frozenset()
    OUT = {}

    def out_of(n, succ=None):
        base = IN[n]
        if n in (ENTRY, EXIT, RAISE):
            return base
        s = cfg.stmts[n]
        d = base | defs_of(s)
        return d
    changed = True
    order = list(nx.dfs_preorder_nodes(g, ENTRY))
    it = 0
    while changed and it < 50:
        changed = False
        it += 1
        for n in order:
            if n == ENTRY:
                continue
            preds = list(g.predecessors(n))
            vals = []
            for p in preds:
                o = out_of(p)
                if p not in (ENTRY, EXIT, RAISE):
                    ps = cfg.stmts[p]
                    if isinstance(ps, (ast.For, ast.AsyncFor)):
                        labels = g[p][n].get('labels', set())
                        if any(l == (id(ps), True) for l in labels):
                            o = o | set(_targets(ps.target))
                vals.append(frozenset(o))
            new = frozenset.intersection(*vals) if vals else frozenset()
            if new != IN[n]:
                IN[n] = new
                changed = True
    out = []
    for nid, s in cfg.stmts.items():
        if nid not in IN or not nx.has_path(g, ENTRY, nid):
            continue
        for name in uses_of(s):
            if name in local and name not in params and name not in IN[nid]:
                out.append((name, s))
    return out
