"""Composition trees: the implementation of an operator / fused op expressed as a tree over catalogue ops, with commutative
ops canonicalised.  Used for the operator table (C05) and the by-construction identities (C14): tree equality, no values."""
import ast
from .core import norm, dotted

COMM = {'add', 'mul'}
F_OPS = {'add': 'add', 'mul': 'mul', 'matmul': 'matmul', 'pow': 'pow', 'rpow': 'rpow', 'neg': 'neg', 'slice': 'slice', 'addmm': 'addmm'}


def _inline_method(e, model, mod, cls):
    """self.helper(args) where helper is a method of cls with a single return statement: its return expression with the
    parameters replaced by the argument expressions (private helper extraction is behaviour preserving)"""
    import copy
    if cls is None or not (isinstance(e.func, ast.Attribute) and isinstance(e.func.value, ast.Name) and e.func.value.id == 'self'):
        return None
    m = cls.methods.get(e.func.attr)
    if m is None:
        return None
    body = [s for s in m.node.body if not (isinstance(s, ast.Expr) and isinstance(s.value, ast.Constant))]
    if e.keywords or not body:
        return None
    # `if c: return a` ... `return b`  ==  a if c else b
    expr = None
    if isinstance(body[-1], ast.Return) and all(isinstance(x, ast.If) and not x.orelse and len(x.body) == 1 and isinstance(x.body[0], ast.Return) for x in body[:-1]):
        expr = body[-1].value
        for x in reversed(body[:-1]):
            expr = ast.IfExp(test=x.test, body=x.body[0].value, orelse=expr)
    elif len(body) == 1 and isinstance(body[0], ast.If) and body[0].orelse and len(body[0].body) == 1 and len(body[0].orelse) == 1 \
            and isinstance(body[0].body[0], ast.Return) and isinstance(body[0].orelse[0], ast.Return):
        expr = ast.IfExp(test=body[0].test, body=body[0].body[0].value, orelse=body[0].orelse[0].value)
    if expr is None:
        return None
    body = [ast.Return(value=expr)]
    ps = m.pos_params[1:]
    if len(ps) != len(e.args):
        return None
    sub = dict(zip(ps, e.args))

    class T(ast.NodeTransformer):
        def visit_Name(self, n):
            if n.id in sub:
                return copy.deepcopy(sub[n.id])
            return n
    return T().visit(copy.deepcopy(body[0].value))


def tree(e, model=None, mod=None, params=(), cls=None):
    """-> nested tuple.  leaves: ('var', name) | ('const', value)"""
    if isinstance(e, ast.Name):
        return ('var', e.id)
    if isinstance(e, ast.Constant):
        v = e.value
        return ('const', float(v) if isinstance(v, (int, float)) and not isinstance(v, bool) else v)
    if isinstance(e, ast.UnaryOp) and isinstance(e.op, ast.USub):
        t = tree(e.operand, model, mod, params, cls)
        if t[0] == 'const' and isinstance(t[1], float):
            return ('const', -t[1])
        return _mk('mul', t, ('const', -1.0))
    if isinstance(e, ast.BinOp):
        l, r = tree(e.left, model, mod, params, cls), tree(e.right, model, mod, params, cls)
        if isinstance(e.op, ast.Add):
            return _mk('add', l, r)
        if isinstance(e.op, ast.Sub):
            return _mk('add', l, _mk('mul', r, ('const', -1.0)))
        if isinstance(e.op, ast.Mult):
            return _mk('mul', l, r)
        if isinstance(e.op, ast.Div):
            return _mk('mul', l, ('pow', r, ('const', -1.0)))
        if isinstance(e.op, ast.MatMult):
            return ('matmul', l, r)
        if isinstance(e.op, ast.Pow):
            return ('pow', l, r)
        return ('?', norm(e))
    if isinstance(e, ast.Call):
        d = model.resolve(mod, e.func) if model is not None else dotted(e.func)
        name = (d or dotted(e.func) or '').split('.')[-1]
        full = d or ''
        if full.startswith('synapgrad.functional.') and name in F_OPS:
            args = [tree(a, model, mod, params, cls) for a in e.args]
            if name == 'neg':
                return _mk('mul', args[0], ('const', -1.0))
            if name in COMM:
                return _mk(name, *args)
            return (name,) + tuple(args)
        if full == 'synapgrad.tensor.Tensor' and e.args:
            if len(e.args) == 1 and not [k for k in e.keywords if k.arg not in ('requires_grad', 'device', 'name')]:
                return tree(e.args[0], model, mod, params, cls)      # Tensor(scalar) wrapping keeps the value
            # a dtype / extra argument may change the wrapped VALUE (e.g. dtype=self.dtype truncates a float scalar for an integer tensor)
            return ('wrap', tree(e.args[0], model, mod, params, cls)) + tuple(sorted((k.arg or '**', norm(k.value)) for k in e.keywords)) + tuple(('arg', norm(a)) for a in e.args[1:])
        inl = _inline_method(e, model, mod, cls)
        if inl is not None:
            return tree(inl, model, mod, params, cls)
        return ('call', name) + tuple(tree(a, model, mod, params, cls) for a in e.args)
    if isinstance(e, ast.Attribute) and e.attr == 'T':
        return ('T', tree(e.value, model, mod, params, cls))
    if isinstance(e, ast.Attribute):
        return ('attr', tree(e.value, model, mod, params, cls), e.attr)
    if isinstance(e, ast.IfExp):
        # x if isinstance(x, Tensor) else Tensor(x)  -> x
        a, b = tree(e.body, model, mod, params, cls), tree(e.orelse, model, mod, params, cls)
        if a == b:
            return a
        return ('if', norm(e.test), a, b)
    return ('?', norm(e))


def _mk(op, *args):
    flat = []
    for a in args:
        flat.append(a)
    if op in COMM:
        flat = sorted(flat, key=repr)
    return (op,) + tuple(flat)


def show(t):
    if t[0] in ('var',):
        return t[1]
    if t[0] == 'const':
        return repr(t[1])
    return '%s(%s)' % (t[0], ', '.join(show(x) if isinstance(x, tuple) else repr(x) for x in t[1:]))
