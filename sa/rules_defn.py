"""DEFN: forward kernels equal their documented mathematical definitions, and fused kernels equal the documented compositions, as identities of
terms under exp / log / axis-sum algebra (sa/explog.py).  The kernels are partially evaluated (sa/peval.py) with symbolic arrays; the numerically
stabilising shifts (axis maximum, relu shift) must cancel exactly.  The guard epsilon of BCE is pinned to 0 and its clamp region (a measure-zero
equality test) is excluded: the documented definition is the one without guard."""
from .peval import PE
from .poly import P, Unsupported
from .explog import XL
from .report import Incomplete

K = 'synapgrad.cpu_ops.'
A = P.atom


def term(model, xl, fname, args, atoms=None):
    ch, cm = xl.hooks()
    f = model.func(K + fname)
    outs = PE(model, atoms=atoms or {}, call_hook=ch, compare_hook=cm, atoms_not_none=True).paths(f, args)
    if len(outs) != 1 or outs[0].kind != 'return' or not isinstance(outs[0].value, P):
        raise Incomplete('%s does not evaluate to one term: %s' % (fname, [(o.kind, o.conds[-2:]) for o in outs][:3]))
    return f, outs[0].value


def ce_term(model, xl, fname, args):
    """term of a kernel that gathers `T[range(n), labels]`: the gather becomes the atom gather{<canonical T>}"""
    ch, cm = xl.hooks()

    def hook(pe, name, e, args_, kw, env, func, depth):
        if name == 'numpy.reshape' and args_ and isinstance(args_[0], P):
            return args_[0]
        return ch(pe, name, e, args_, kw, env, func, depth)

    def sub_hook(pe, e, base, idx):
        if isinstance(base, P) and isinstance(idx, tuple) and len(idx) == 2 and not (idx and idx[0] == 'slice'):
            lab = idx[1]
            if isinstance(lab, P) and lab == A('y_true'):
                return P.atom('gather{%s}' % xl.norm(base).canon())
        return NotImplemented
    f = model.func(K + fname) if isinstance(fname, str) else fname
    outs = PE(model, call_hook=hook, compare_hook=cm, sub_hook=sub_hook, atoms_not_none=True).paths(f, args)
    if len(outs) != 1 or outs[0].kind != 'return' or not isinstance(outs[0].value, P):
        raise Incomplete('%s does not evaluate to one term: %s' % (f.name, [(o.kind, o.conds[-2:]) for o in outs][:3]))
    return f, outs[0].value


def definitions(model):
    """name -> (thunk returning (func, got term, wanted term, xl), text of the definition)"""
    a, x, y, ax = A('a'), A('y_pred'), A('y_true'), A('axis')

    def sigmoid():
        xl = XL()
        f, t = term(model, xl, 'sigmoid_forward', {'a': a})
        return f, t, 1 / (1 + xl.exp(-a)), xl

    def softmax():
        xl = XL(scalars={'axis'})
        f, t = term(model, xl, 'softmax_forward', {'a': a, 'axis': ax})
        return f, t, xl.exp(a) / xl.sum(xl.exp(a)), xl

    def log_softmax():
        xl = XL(scalars={'axis'})
        f, t = term(model, xl, 'log_softmax_forward', {'a': a, 'axis': ax})
        return f, t, a - xl.log(xl.sum(xl.exp(a))), xl

    def mse():
        xl = XL()
        f, t = term(model, xl, 'mse_loss_forward', {'y_pred': x, 'y_true': y})
        return f, t, (x - y) * (x - y), xl

    def bce():
        xl = XL()
        f, t = term(model, xl, 'bce_loss_forward', {'y_pred': x, 'y_true': y}, atoms={'epsilon': 0})
        return f, t, -(y * xl.log(x) + (1 - y) * xl.log(1 - x)), xl

    def bce_logits():
        xl = XL()
        f, t = term(model, xl, 'bce_with_logits_loss_forward', {'y_pred': x, 'y_true': y})
        return f, t, (1 - y) * x + xl.log(1 + xl.exp(-x)), xl

    def selu():
        xl = XL()
        al, sc = A('alpha'), A('scale')
        f, t = term(model, xl, 'selu_forward', {'a': a, 'alpha': al, 'scale': sc})
        return f, t, sc * (xl.opaque('maximum', P.const(0), a) + xl.opaque('minimum', al * (xl.exp(a) - 1), P.const(0))), xl

    def relu():
        xl = XL()
        f, t = term(model, xl, 'relu_forward', {'a': a})
        return f, t, xl.opaque('maximum', P.const(0), a), xl

    def cross_entropy():
        # -(log-probabilities gathered at the labels): the gather is an opaque marker around the term it reads
        xl = XL(scalars={'axis'})
        f, t = ce_term(model, xl, 'cross_entropy_loss_forward', {'y_pred': a, 'y_true': y})
        want = -P.atom('gather{%s}' % xl.norm(a - xl.log(xl.sum(xl.exp(a)))).canon())
        return f, t, want, xl
    return {
        'sigmoid': (sigmoid, '1 / (1 + exp(-a))'),
        'softmax': (softmax, 'exp(a) / sum_axis exp(a)'),
        'log_softmax': (log_softmax, 'a - log sum_axis exp(a)'),
        'mse_loss': (mse, '(y_pred - y_true)^2'),
        'bce_loss': (bce, '-(y log p + (1 - y) log(1 - p))  (guard epsilon -> 0, away from the clamp)'),
        'bce_with_logits_loss': (bce_logits, '(1 - y) x + log(1 + exp(-x))'),
        'selu': (selu, 'scale * (max(0, a) + min(0, alpha * (exp(a) - 1)))'),
        'relu': (relu, 'max(0, a)'),
        'cross_entropy_loss': (cross_entropy, 'NLL of (a - log sum_1 exp(a)): the log-probabilities handed to nll_loss_forward'),
    }


def check_defn(model, R, P_, names, why):
    R.rule(P_ + '.DEFN', 'the forward kernel equals its documented mathematical definition as a term under exp / log / axis-sum algebra (stabilising shifts cancel exactly): ' + why, floor=len(names))
    defs = definitions(model)
    for nm in names:
        thunk, text = defs[nm]
        try:
            f, got, want, xl = thunk()
            ok = xl.equal(got, want)
            R.ob(P_ + '.DEFN', f.qualname, '%s = %s' % (nm, xl.norm(got).canon()[:160]), ok, 'documented definition: %s, i.e. %s' % (text, xl.norm(want).canon()[:200]), f.loc)
        except (Unsupported, ZeroDivisionError) as u:
            R.incomplete_at(P_ + '.DEFN', K + nm + '_forward', 'outside the exp / log term fragment: %s' % u)
        except Incomplete as u:
            R.incomplete_at(P_ + '.DEFN', K + nm + '_forward', str(u))


def check_fused(model, R, P_):
    """C14: natively implemented fused kernels equal the documented compositions of the other kernels"""
    R.rule(P_ + '.EXPLOG', 'natively implemented fused kernels equal the documented composition of the component kernels as terms under exp / log / axis-sum algebra', floor=3)
    a, x, y, ax = A('a'), A('y_pred'), A('y_true'), A('axis')
    try:
        xl = XL(scalars={'axis'})
        f, ls = term(model, xl, 'log_softmax_forward', {'a': a, 'axis': ax})
        _, sm = term(model, xl, 'softmax_forward', {'a': a, 'axis': ax})
        comp = xl.log(sm)
        R.ob(P_ + '.EXPLOG', f.qualname, 'log_softmax(a) = %s ; log(softmax(a)) = %s' % (xl.norm(ls).canon()[:90], xl.norm(comp).canon()[:90]), xl.equal(ls, comp),
             'log_softmax must be the logarithm of the softmax kernel', f.loc)
    except (Unsupported, ZeroDivisionError, Incomplete) as u:
        R.incomplete_at(P_ + '.EXPLOG', K + 'log_softmax_forward', str(u))
    try:
        xl = XL(scalars={'axis'})
        f, ce = ce_term(model, xl, 'cross_entropy_loss_forward', {'y_pred': a, 'y_true': y})
        _, ls = term(model, xl, 'log_softmax_forward', {'a': a, 'axis': 1})
        _, comp = ce_term(model, xl, 'nll_loss_forward', {'y_pred': ls, 'y_true': y})
        R.ob(P_ + '.EXPLOG', f.qualname, 'cross_entropy(a, y) = %s ; nll(log_softmax(a, 1), y) = %s' % (xl.norm(ce).canon()[:90], xl.norm(comp).canon()[:90]), xl.equal(ce, comp),
             'cross-entropy must be the NLL of log_softmax along dim 1', f.loc)
    except (Unsupported, ZeroDivisionError, Incomplete) as u:
        R.incomplete_at(P_ + '.EXPLOG', K + 'cross_entropy_loss_forward', str(u))
    try:
        xl = XL()
        f, bl = term(model, xl, 'bce_with_logits_loss_forward', {'y_pred': x, 'y_true': y})
        _, sg = term(model, xl, 'sigmoid_forward', {'a': x})
        _, comp = term(model, xl, 'bce_loss_forward', {'y_pred': sg, 'y_true': y}, atoms={'epsilon': 0})
        R.ob(P_ + '.EXPLOG', f.qualname, 'bce_with_logits(x, y) = %s ; bce(sigmoid(x), y) = %s' % (xl.norm(bl).canon()[:90], xl.norm(comp).canon()[:90]), xl.equal(bl, comp),
             'BCE-with-logits must be BCE of the sigmoid kernel (guard epsilon -> 0, away from the clamp)', f.loc)
    except (Unsupported, ZeroDivisionError, Incomplete) as u:
        R.incomplete_at(P_ + '.EXPLOG', K + 'bce_with_logits_loss_forward', str(u))


def check_deriv_x(model, R, P_):
    """C02: backward kernels of the log-based losses equal grad * d(forward definition)/d(prediction) as terms (guard epsilon -> 0);
    the piecewise relu shift of BCE-with-logits is evaluated in both of its cases (x >= 0: shift 0; x < 0: shift -x)"""
    R.rule(P_ + '.DERIV-X', 'backward kernels of the log-based losses equal grad * d(forward)/d(prediction) as terms under exp / log algebra (guard epsilon -> 0; both cases of the relu shift)', floor=3)
    x, y, g = A('y_pred'), A('y_true'), A('grad')
    try:
        xl = XL()
        f, fw = term(model, xl, 'bce_loss_forward', {'y_pred': x, 'y_true': y}, atoms={'epsilon': 0})
        fb, bw = term(model, xl, 'bce_loss_backward', {'grad': g, 'y_pred': x, 'y_true': y}, atoms={'epsilon': 0})
        want = g * xl.diff(fw, 'y_pred')
        R.ob(P_ + '.DERIV-X', fb.qualname, 'd bce / d y_pred: %s' % xl.norm(bw).canon()[:140], xl.equal(bw, want), 'expected grad * d(-(y log p + (1-y) log(1-p)))/dp = %s' % xl.norm(want).canon()[:160], fb.loc)
    except (Unsupported, ZeroDivisionError, Incomplete) as u:
        R.incomplete_at(P_ + '.DERIV-X', K + 'bce_loss_backward', str(u))
    fb = model.func(K + 'bce_with_logits_loss_backward')
    for case in ('x >= 0', 'x < 0'):
        try:
            xl = XL()
            ch, cm = xl.hooks()

            def hook(pe, name, e, args, kw, env, func, depth, case=case):
                if name == K + 'relu_forward' and len(args) == 1:
                    return P.const(0) if case == 'x >= 0' else args[0]          # relu(-x)
                return ch(pe, name, e, args, kw, env, func, depth)
            outs = PE(model, atoms={'epsilon': 0}, call_hook=hook, compare_hook=cm, atoms_not_none=True).paths(fb, {'grad': g, 'y_pred': x, 'y_true': y})
            if len(outs) != 1 or outs[0].kind != 'return' or not isinstance(outs[0].value, P):
                raise Incomplete('case %s does not evaluate to one term: %s' % (case, [(o.kind, o.conds[-2:]) for o in outs][:3]))
            bw = outs[0].value
            want = g * xl.diff((1 - y) * x + xl.log(1 + xl.exp(-x)), 'y_pred')
            R.ob(P_ + '.DERIV-X', fb.qualname, '[%s] d bce_with_logits / d y_pred: %s' % (case, xl.norm(bw).canon()[:120]), xl.equal(bw, want),
                 'expected grad * d((1-y) x + log(1 + exp(-x)))/dx = %s' % xl.norm(want).canon()[:160], fb.loc)
        except (Unsupported, ZeroDivisionError, Incomplete) as u:
            R.incomplete_at(P_ + '.DERIV-X', fb.qualname, '%s: %s' % (case, u))
