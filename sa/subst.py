"""Forward substitution of straight-line code in the POLY domain under a valuation of the configuration predicates
(trace partitioning).  No values are computed: names are replaced by the terms assigned to them and every term is kept in
normal form (sa/poly.py).  A statement outside the fragment raises Incomplete."""
import ast
from .core import norm
from .poly import P, TermBuilder, Unsupported
from .report import Incomplete
from .rules_engine import eval_bool


class Skip(Exception):
    """`continue` / `return` reached"""


class Subst:
    def __init__(self, model, func, atoms, predicates, on_call=None, opaque_names=()):
        """atoms: normalised source text -> atom name (e.g. 'p._grad' -> 'g'); predicates: normalised test text -> bool"""
        self.model, self.func = model, func
        self.atoms, self.predicates = atoms, predicates
        self.env = {}           # local names -> P
        self.mem = {}           # normalised attribute/subscript text -> current P
        self.stores = []        # (text, P, stmt)
        self.on_call = on_call
        self.opaque_names = set(opaque_names)

    # ---- terms
    def atom_of(self, e):
        if isinstance(e, (ast.Attribute, ast.Subscript)):
            t = norm(e)
            if t in self.mem:
                return self.mem[t]
            if t in self.atoms:
                return P.atom(self.atoms[t])
            raise Incomplete('memory location `%s` is not in the atom table of this rule' % t)
        return None

    def term(self, e):
        if isinstance(e, ast.IfExp):
            return self.term(e.body if self.test(e.test) else e.orelse)
        tb = TermBuilder(self.env, self.atom_of, self.model, self.func.mod, self._call)
        try:
            return tb.build(e)
        except Unsupported as u:
            raise Incomplete('term outside the POLY fragment: %s' % u)

    def _call(self, tb, name, e):
        # conditional sub-expressions inside calls
        if self.on_call is not None:
            return self.on_call(self, tb, name, e)
        return None

    def test(self, e):
        def val(t):
            if t not in self.predicates:
                raise Incomplete('predicate `%s` is not in the valuation table of this rule' % t)
            return self.predicates[t]
        return eval_bool(e, val)

    # ---- statements
    def run(self, stmts):
        try:
            self.block(stmts)
        except Skip:
            pass
        return self

    def block(self, stmts):
        for s in stmts:
            self.stmt(s)

    def stmt(self, s):
        if isinstance(s, ast.Expr):
            return
        if isinstance(s, ast.Assign):
            if any(isinstance(x, ast.IfExp) for x in ast.walk(s.value)) and not isinstance(s.value, ast.IfExp):
                v = self.term(self._resolve_ifexps(s.value))
            else:
                v = self.term(s.value)
            for t in s.targets:
                self.assign(t, v, s)
            return
        if isinstance(s, ast.AugAssign):
            cur = self.term(s.target)
            rhs = self.term(s.value)
            if isinstance(s.op, ast.Add):
                v = cur + rhs
            elif isinstance(s.op, ast.Sub):
                v = cur - rhs
            elif isinstance(s.op, ast.Mult):
                v = cur * rhs
            elif isinstance(s.op, ast.Div):
                v = cur / rhs
            else:
                raise Incomplete('augmented operator %s' % type(s.op).__name__)
            self.assign(s.target, v, s)
            return
        if isinstance(s, ast.If):
            self.block(s.body if self.test(s.test) else s.orelse)
            return
        if isinstance(s, (ast.Continue, ast.Return, ast.Break)):
            raise Skip()
        if isinstance(s, ast.With):
            self.block(s.body)
            return
        if isinstance(s, ast.Pass):
            return
        raise Incomplete('statement outside the straight-line fragment: %s' % norm(s)[:70])

    def _resolve_ifexps(self, e):
        class T(ast.NodeTransformer):
            def visit_IfExp(inner, n):
                return inner.visit(n.body if self.test(n.test) else n.orelse)
        import copy
        return T().visit(copy.deepcopy(e))

    def assign(self, t, v, s):
        if isinstance(t, ast.Name):
            self.env[t.id] = v
        elif isinstance(t, (ast.Attribute, ast.Subscript)):
            k = norm(t)
            self.mem[k] = v
            self.stores.append((k, v, s))
        else:
            raise Incomplete('assignment target %s' % norm(t))
