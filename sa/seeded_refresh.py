"""Re-evaluate every stored seeded change against the current checks and refresh meta.json['detection'] (first_evaluation is kept).
usage: seeded_refresh.py [ids...]"""
import os, sys, json, glob
HERE = os.path.dirname(os.path.abspath(__file__))
sys.path.insert(0, os.path.dirname(HERE))
from sa import seeded_eval
from concurrent.futures import ProcessPoolExecutor

INITIALLY_MISSED = {'C01-m3', 'C03-m1', 'C03-m2', 'C04-m1', 'C05-m1', 'C05-m2', 'C05-m3', 'C06-m3', 'C07-m3', 'C14-m2', 'C20-m2'}     # round 1: missed when first evaluated, caught after strengthening
NO_CHECK_YET = {'C09-m1', 'C09-m2', 'C09-m3'}                                                                                  # stored before the C09 check existed

if __name__ == '__main__':
    root = os.path.join(os.path.dirname(HERE), 'seeded')
    dirs = sorted(d for d in glob.glob(os.path.join(root, '*')) if os.path.exists(os.path.join(d, 'patch.diff')) and (not sys.argv[1:] or os.path.basename(d) in sys.argv[1:]))
    with ProcessPoolExecutor(max_workers=12) as ex:
        res = list(ex.map(seeded_eval.run_one, dirs))
    n = {}
    for d, r in zip(dirs, res):
        mf = os.path.join(d, 'meta.json')
        m = json.load(open(mf))
        fired = {p: x['rules'] for p, x in r.get('results', {}).items() if x['code'] == 1}
        inc = {p: (x['incomplete'] or x['err']) for p, x in r.get('results', {}).items() if x['code'] == 2}
        status = 'caught' if fired else ('incomplete (exit 2)' if inc else 'missed')
        if 'first_evaluation' not in m:
            sid = m['id']
            m['first_evaluation'] = dict(status='missed' if sid in INITIALLY_MISSED else ('no check for the property existed yet' if sid in NO_CHECK_YET else 'caught'))
        m['detection'] = dict(reported_by=fired, analysis_incomplete=inc, status=status)
        json.dump(m, open(mf, 'w'), indent=1)
        n[status] = n.get(status, 0) + 1
        if status != 'caught':
            print(m['id'], status, inc)
    print(n)
