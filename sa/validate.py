"""Validate MANIFEST.json and every evidence file against the schemas (run with python3-vt, which has jsonschema)."""
import json, sys, glob
import jsonschema
ok = True
m = json.load(open('/verif/MANIFEST.json'))
try:
    jsonschema.validate(m, json.load(open('/root/.vp/MANIFEST.schema.json'))); print('MANIFEST ok: %d checks, %d not_applicable' % (len(m['checks']), len(m.get('not_applicable', []))))
except Exception as e:
    ok = False; print('MANIFEST INVALID', str(e)[:300])
es = json.load(open('/root/.vp/EVIDENCE.schema.json'))
for f in sorted(glob.glob('/verif/evidence/C??.json')):
    try:
        jsonschema.validate(json.load(open(f)), es); print('ok', f)
    except Exception as e:
        ok = False; print('INVALID', f, str(e)[:300])
ids = {c['property_id'] for c in m['checks']} | {c['property_id'] for c in m.get('not_applicable', [])}
missing = {'C%02d' % i for i in range(1, 21)} - ids
if missing: ok = False; print('properties neither claimed nor not_applicable:', sorted(missing))
sys.exit(0 if ok else 1)
