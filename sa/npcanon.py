"""Uniform access to (normalised) NumPy calls: npcall(model, f, call) -> (name, {param: expr}) with positional arguments bound to the
parameter names of a frozen signature table, whatever mix of positional / keyword spelling the source uses."""
import ast
from .core import norm

SIG = {
    'sum': ('a', 'axis', 'dtype', 'out', 'keepdims'), 'mean': ('a', 'axis', 'dtype', 'out', 'keepdims'), 'var': ('a', 'axis', 'dtype', 'out', 'ddof', 'keepdims'),
    'std': ('a', 'axis', 'dtype', 'out', 'ddof', 'keepdims'),
    'max': ('a', 'axis', 'out', 'keepdims'), 'min': ('a', 'axis', 'out', 'keepdims'), 'amax': ('a', 'axis', 'out', 'keepdims'), 'amin': ('a', 'axis', 'out', 'keepdims'),
    'argmax': ('a', 'axis', 'out', 'keepdims'), 'argmin': ('a', 'axis', 'out', 'keepdims'), 'prod': ('a', 'axis', 'dtype', 'out', 'keepdims'),
    'concatenate': ('arrays', 'axis'), 'stack': ('arrays', 'axis'), 'rollaxis': ('a', 'axis', 'start'), 'split': ('ary', 'indices_or_sections', 'axis'),
    'squeeze': ('a', 'axis'), 'expand_dims': ('a', 'axis'), 'moveaxis': ('a', 'source', 'destination'), 'swapaxes': ('a', 'axis1', 'axis2'),
    'reshape': ('a', 'newshape'), 'transpose': ('a', 'axes'), 'tensordot': ('a', 'b', 'axes'), 'pad': ('array', 'pad_width', 'mode'),
    'broadcast_to': ('array', 'shape'), 'repeat': ('a', 'repeats', 'axis'), 'tile': ('A', 'reps'), 'where': ('condition', 'x', 'y'),
    'zeros': ('shape', 'dtype'), 'ones': ('shape', 'dtype'), 'full': ('shape', 'fill_value', 'dtype'), 'zeros_like': ('a', 'dtype'), 'ones_like': ('a', 'dtype'),
    'put_along_axis': ('arr', 'indices', 'values', 'axis'), 'unravel_index': ('indices', 'shape'), 'exp': ('x',), 'log': ('x',), 'sqrt': ('x',), 'tanh': ('x',),
    'maximum': ('x1', 'x2'), 'minimum': ('x1', 'x2'), 'floor': ('x',), 'prod_': ('a',), 'array': ('object', 'dtype'), 'ascontiguousarray': ('a', 'dtype'),
    'lib.stride_tricks.as_strided': ('x', 'shape', 'strides'), 'lib.stride_tricks.sliding_window_view': ('x', 'window_shape', 'axis'),
}


def npname(model, f, call):
    if not isinstance(call, ast.Call):
        return None
    d = model.resolve(f.mod, call.func)
    if d and d.startswith('numpy.'):
        return d[6:]
    return None


def npcall(model, f, call):
    """-> (numpy function name, {param: expr}) or (None, None)"""
    n = npname(model, f, call)
    if n is None:
        return None, None
    sig = SIG.get(n)
    b = {}
    for i, a in enumerate(call.args):
        if isinstance(a, ast.Starred):
            b['*%d' % i] = a
        elif sig is not None and i < len(sig):
            b[sig[i]] = a
        else:
            b['arg%d' % i] = a
    for k in call.keywords:
        if k.arg is not None:
            name = k.arg
            if n == 'reshape' and name == 'shape':
                name = 'newshape'
            b[name] = k.value
    return n, b


def literal_perm(model, f, call):
    """np.transpose(x, (2, 0, 1)) -> ((2, 0, 1), x expr) else None"""
    n, b = npcall(model, f, call)
    if n == 'transpose' and b.get('axes') is not None and isinstance(b['axes'], (ast.Tuple, ast.List)) and all(isinstance(e, ast.Constant) and isinstance(e.value, int) for e in b['axes'].elts):
        return tuple(e.value for e in b['axes'].elts), b.get('a')
    return None


def calls(model, f, name, node=None):
    """all calls of numpy function `name` inside f (or inside `node`)"""
    return [c for c in ast.walk(node if node is not None else f.node) if isinstance(c, ast.Call) and npname(model, f, c) == name]
