"""C13 - Dropout and BatchNorm honour train/eval mode over any call history (mode predicates, once-only state writes, update normal forms)."""
import ast, itertools
from sa.core import norm, body_walk, dotted, names_in
from sa.cfg import CFG, facts_at
from sa.poly import P, TermBuilder, Unsupported, as_p
from sa.peval import PE
from sa.report import Incomplete
from sa.rules_engine import eval_bool
from sa.rules_template import bind_call

LMOD = 'synapgrad.nn.layers'


def _stmt_of(f, node):
    for s in ast.walk(f.node):
        if isinstance(s, ast.stmt) and not isinstance(s, (ast.If, ast.For, ast.While, ast.With, ast.Try, ast.FunctionDef)) and any(x is node for x in ast.walk(s)):
            return s


def check(model, R, tier):
    R.rule('C13.DROP-EVAL', 'in eval mode Dropout.forward returns its argument itself, before any random draw or op', floor=1)
    R.rule('C13.DROP-TRAIN', 'training: one draw of shape x.shape from the global generator; keep iff draw > p (zero with probability p); survivors scaled by 1/(1-p) under p < 1; result = x * mask through the mul op, mask not requiring grad', floor=5)
    R.rule('C13.BN-CHOICE', 'over all 8 valuations of (training, track_running_stats, buffers present): running statistics are used iff not training and buffers present; they are updated iff training and tracking (layer + functional + kernel composed by partial evaluation; output term compared)', floor=2)
    R.rule('C13.BN-ONCE', 'num_batches_tracked += 1 exactly once per forward on exactly the path training and track_running_stats; averaging factor = momentum, or 1/num_batches_tracked (after the increment) when momentum is None', floor=2)
    R.rule('C13.BN-UPDATE', 'running stats are written only under `training`, as stat*f + running*(1-f) with the unbiased variance var*n/(n-1), into fresh arrays; the write-back is decided on the composed layer + wrapper + kernel evaluation', floor=1)
    R.rule('C13.MODE-SOURCE', 'Dropout and BatchNorm read only self.training for the mode', floor=2)
    check_dropout(model, R)
    check_bn(model, R)
    from sa.props.c12 import check_mode
    from sa.props.c12 import check_super_roles
    check_super_roles(model, R, 'C13')
    check_mode(model, R, 'C13')      # train()/eval() reach every descendant layer: necessary for 'any interleaving of mode switches'
    return dict(
        explanation='Decides which path is taken under which mode predicate and what is written when: Dropout eval path is the identity with no draw; the training path draws once, compares with p in the right orientation, '
                    'scales by 1/(1-p) and multiplies through the catalogue op (so backward uses the same mask by C01); BatchNorm\'s composed predicates (layer, functional wrapper, kernel) select running statistics iff eval and '
                    'buffers exist and update them iff training and tracking, for all 8 valuations; the batch counter is incremented once on that path; the update has the documented exponential / cumulative normal form with the '
                    'unbiased variance. The Bernoulli distribution of the mask and the numerical statistics are not decided.',
        assumptions=['np.random.rand draws i.i.d. U[0,1) elements', 'Module.train()/eval() are the only writers of self.training (C12.MODE)'],
        technique='partial evaluation with path enumeration (layer + wrapper + kernel composed under 16 valuations) + polynomial normal form of output / stored terms')


def check_dropout(model, R):
    """Dropout.forward partially evaluated under (training, p < 1): the returned term is compared with x * keep/(1-p)"""
    f = model.func(LMOD + '.Dropout.forward')
    x = f.pos_params[1]
    X, U, K_, PP = P.atom(x), P.atom('U'), P.atom('keep'), P.atom('self.p')

    def run(T, Q):
        rec = dict(draws=[], tensors=[])

        def call_hook(pe, name, e, args, kw, env, func, depth):
            if name and (name.startswith('numpy.random.') or name.startswith('random.')):
                rec['draws'].append((name, [norm(a) for a in e.args], sorted(k.arg for k in e.keywords if k.arg), {k.arg: norm(k.value) for k in e.keywords if k.arg}))
                return U
            if name == 'numpy.where' and len(args) == 3 and isinstance(args[0], P):
                return as_p(args[1]) * args[0] + as_p(args[2]) * (1 - args[0])
            if name in ('synapgrad.tensor.tensor', 'synapgrad.tensor.Tensor', 'synapgrad.tensor') and args:
                rec['tensors'].append((args[0], kw))
                return args[0]
            if isinstance(e.func, ast.Attribute) and e.func.attr == 'astype':
                return pe.expr(e.func.value, env, func, depth)
            return NotImplemented

        def compare_hook(pe, op, a, b):
            # an elementwise comparison of the draw with p is data: the indicator of "kept" (draw > p) or its complement
            if isinstance(a, P) and isinstance(b, P) and a == U and b == PP:
                return K_ if isinstance(op, (ast.Gt, ast.GtE)) else (1 - K_ if isinstance(op, (ast.Lt, ast.LtE)) else NotImplemented)
            if isinstance(a, P) and isinstance(b, P) and a == PP and b == U:
                return K_ if isinstance(op, (ast.Lt, ast.LtE)) else (1 - K_ if isinstance(op, (ast.Gt, ast.GtE)) else NotImplemented)
            return NotImplemented
        preds = {'self.training': T, 'self.p < 1': Q, 'self.p >= 1': not Q, 'self.p != 1': Q, 'self.p == 1': not Q, '1 > self.p': Q, 'self.p < 1.0': Q}
        outs = PE(model, preds=preds, call_hook=call_hook, compare_hook=compare_hook, atoms_not_none=True).paths(f, {})
        return outs, rec
    try:
        outs, rec = run(False, True)
        outs2, rec2 = run(False, False)
        ok = all(len(o) == 1 and o[0].kind == 'return' and isinstance(o[0].value, P) and o[0].value == X and not o[0].calls and not o[0].stores for o in (outs, outs2)) \
            and not rec['draws'] and not rec2['draws']
        R.ob('C13.DROP-EVAL', f.qualname, 'eval path returns %s; calls on the path: %s' % ([getattr(o.value, 'canon', lambda: repr(o.value))() for o in outs], [c[0] for o in outs for c in o.calls]), ok,
             'eval mode must return the input itself with no draw, no op and no state change (deterministic identity)', f.loc)
        for Q in (True, False):
            outs, rec = run(True, Q)
            tag = 'p < 1' if Q else 'p >= 1'
            draws = rec['draws']
            ok = len(outs) == 1 and len(draws) == 1 and draws[0][0] in ('numpy.random.rand', 'numpy.random.random', 'numpy.random.uniform', 'numpy.random.random_sample')
            if ok:
                nm, a, kws, kwd = draws[0]
                ok = (nm == 'numpy.random.rand' and a == ['*%s.shape' % x] and not kws) or (nm in ('numpy.random.random', 'numpy.random.random_sample') and a == ['%s.shape' % x] and not kws) \
                    or (nm == 'numpy.random.uniform' and not a and kwd == {'size': '%s.shape' % x})
            R.ob('C13.DROP-TRAIN', f.qualname, '[%s] draws: %s' % (tag, [(d[0], d[1]) for d in draws]), ok, 'exactly one U[0,1) draw per element of x per training forward, from the seeded global generator', f.loc)
            want = X * K_ / (1 - PP) if Q else X * K_
            got = outs[0].value if len(outs) == 1 and outs[0].kind == 'return' else None
            ok = isinstance(got, P) and (got == want or (not Q and got == X * K_ / (1 - PP) and False))
            R.ob('C13.DROP-TRAIN', f.qualname, '[%s] output term %s' % (tag, got.canon() if isinstance(got, P) else repr(got)), ok,
                 'training output must be x * keep%s through the tensor product, keep = [draw > p] (zero with probability p): expected %s' % ('/(1-p)' if Q else ' (no division by zero at p = 1)', want.canon()), f.loc)
            tens = rec['tensors']
            ok = len(tens) == 1 and not any(k == 'requires_grad' and v is not False for k, v in tens[0][1].items())
            R.ob('C13.DROP-TRAIN', f.qualname, '[%s] mask tensor: %d construction(s)' % (tag, len(tens)), ok, 'the mask is wrapped in one tensor that does not require grad (backward then reuses the same mask through the mul op)', f.loc)
    except Incomplete as u:
        R.incomplete_at('C13.DROP-TRAIN', f.qualname, str(u))
    modes = {norm(n) for n in ast.walk(f.node) if isinstance(n, ast.Attribute) and n.attr in ('training', 'eval_mode', 'mode')}
    R.ob('C13.MODE-SOURCE', f.qualname, 'mode reads %s' % sorted(modes), modes == {'self.training'}, 'the mode must come from self.training only', f.loc)


def check_bn(model, R):
    f = model.func(LMOD + '.BatchNorm.forward')
    cfg = CFG(f.node)
    call = [c for c in ast.walk(f.node) if isinstance(c, ast.Call) and model.resolve(f.mod, c.func) == 'synapgrad.nn.functional.batch_norm']
    if len(call) != 1:
        R.incomplete_at('C13.BN-CHOICE', f.qualname, 'call of F.batch_norm not found')
        return
    wrapper = model.func('synapgrad.nn.functional.batch_norm')
    kern = model.func('synapgrad.cpu_ops.batch_norm_forward')
    b, _ = bind_call(call[0], wrapper)
    modes = {norm(n) for n in ast.walk(f.node) if isinstance(n, ast.Attribute) and n.attr in ('training',)}
    R.ob('C13.MODE-SOURCE', f.qualname, 'mode reads %s' % sorted(modes), modes == {'self.training'}, 'the mode must come from self.training only', f.loc)

    from sa.rules_bn import check_layer
    check_layer(model, R)
    R.ob('C13.BN-ONCE', f.qualname, 'F.batch_norm called once', not cfg.in_loop(_stmt_of(f, call[0])), 'one normalisation (and at most one update) per forward', f.loc)
    # (the write-back of each buffer from the kernel result for THAT buffer is decided by check_layer: layer + wrapper + kernel composed, stores compared as terms)
