"""C13 - Dropout and BatchNorm honour train/eval mode over any call history (mode predicates, once-only state writes, update normal forms)."""
import ast, itertools
from sa.core import norm, body_walk, dotted, names_in
from sa.cfg import CFG, facts_at
from sa.poly import P, TermBuilder, Unsupported
from sa.report import Incomplete
from sa.rules_engine import eval_bool
from sa.rules_template import bind_call

LMOD = 'synapgrad.nn.layers'


def _stmt_of(f, node):
    for s in ast.walk(f.node):
        if isinstance(s, ast.stmt) and not isinstance(s, (ast.If, ast.For, ast.While, ast.With, ast.Try, ast.FunctionDef)) and any(x is node for x in ast.walk(s)):
            return s


def check(model, R, tier):
    R.rule('C13.DROP-EVAL', 'in eval mode Dropout.forward returns its argument itself, before any random draw or op', floor=1)
    R.rule('C13.DROP-TRAIN', 'training: one draw of shape x.shape from the global generator; keep iff draw > p (zero with probability p); survivors scaled by 1/(1-p) under p < 1; result = x * mask through the mul op, mask not requiring grad', floor=5)
    R.rule('C13.BN-CHOICE', 'over all 8 valuations of (training, track_running_stats, buffers present): running statistics are used iff not training and buffers present; they are updated iff training and tracking (layer + functional + kernel composed)', floor=2)
    R.rule('C13.BN-ONCE', 'num_batches_tracked += 1 exactly once per forward on exactly the path training and track_running_stats; averaging factor = momentum, or 1/num_batches_tracked (after the increment) when momentum is None', floor=3)
    R.rule('C13.BN-UPDATE', 'running stats are written only under `training`, as stat*f + running*(1-f) with the unbiased variance var*n/(n-1), into fresh arrays; the wrapper writes both back once from the kernel results', floor=5)
    R.rule('C13.MODE-SOURCE', 'Dropout and BatchNorm read only self.training for the mode', floor=2)
    check_dropout(model, R)
    check_bn(model, R)
    from sa.props.c12 import check_mode
    check_mode(model, R, 'C13')      # train()/eval() reach every descendant layer: necessary for 'any interleaving of mode switches'
    return dict(
        explanation='Decides which path is taken under which mode predicate and what is written when: Dropout eval path is the identity with no draw; the training path draws once, compares with p in the right orientation, '
                    'scales by 1/(1-p) and multiplies through the catalogue op (so backward uses the same mask by C01); BatchNorm\'s composed predicates (layer, functional wrapper, kernel) select running statistics iff eval and '
                    'buffers exist and update them iff training and tracking, for all 8 valuations; the batch counter is incremented once on that path; the update has the documented exponential / cumulative normal form with the '
                    'unbiased variance. The Bernoulli distribution of the mask and the numerical statistics are not decided.',
        assumptions=['np.random.rand draws i.i.d. U[0,1) elements', 'Module.train()/eval() are the only writers of self.training (C12.MODE)'],
        technique='path-condition truth tables (8 valuations) + polynomial normal form of the update + def-use pattern rules')


def check_dropout(model, R):
    f = model.func(LMOD + '.Dropout.forward')
    x = f.pos_params[1]
    cfg = CFG(f.node)
    first = [s for s in f.node.body if not (isinstance(s, ast.Expr) and isinstance(s.value, ast.Constant))][0]
    ok = isinstance(first, ast.If) and norm(first.test) == 'not self.training' and len(first.body) == 1 and isinstance(first.body[0], ast.Return) and norm(first.body[0].value) == x and not first.orelse
    R.ob('C13.DROP-EVAL', f.qualname, norm(first)[:60], ok, 'eval mode must return the input unchanged as the very first action (no draw, no op, deterministic)', f.loc)
    draws = [c for c in ast.walk(f.node) if isinstance(c, ast.Call) and (model.resolve(f.mod, c.func) or '').startswith(('numpy.random', 'random.'))]
    ok = len(draws) == 1 and model.resolve(f.mod, draws[0].func) in ('numpy.random.rand', 'numpy.random.random', 'numpy.random.uniform', 'numpy.random.random_sample')
    shape_ok = ok and norm(draws[0]).replace(' ', '') in ('np.random.rand(*%s.shape)' % x, 'np.random.random(%s.shape)' % x, 'np.random.random_sample(%s.shape)' % x, 'np.random.uniform(size=%s.shape)' % x)
    R.ob('C13.DROP-TRAIN', f.qualname, 'draws: %s' % [norm(d) for d in draws], ok and shape_ok and not cfg.in_loop(_stmt_of(f, draws[0])), 'exactly one U[0,1) draw per element of x per forward', f.loc)
    if not ok:
        return
    dst = _stmt_of(f, draws[0])
    dname = norm(dst.targets[0]) if isinstance(dst, ast.Assign) else None
    # mask construction: comparison of the draw with self.p
    masks = []
    for n in body_walk(f.node):
        if isinstance(n, ast.Assign):
            v = n.value
            if isinstance(v, ast.Call) and (model.resolve(f.mod, v.func) == 'numpy.where') and len(v.args) == 3 and isinstance(v.args[0], ast.Compare):
                masks.append((n, v.args[0], norm(v.args[1]), norm(v.args[2])))
            elif isinstance(v, ast.Compare):
                masks.append((n, v, '1', '0'))
    ok = len(masks) == 1
    why = 'expected one mask built by comparing the draw with self.p'
    if ok:
        n, cmp_, a, b = masks[0]
        l, r = norm(cmp_.left), norm(cmp_.comparators[0])
        op = cmp_.ops[0]
        keep_when = None
        if l == dname and r == 'self.p':
            if isinstance(op, (ast.Gt, ast.GtE)):
                keep_when = (a, b) == ('1', '0')
            elif isinstance(op, (ast.Lt, ast.LtE)):
                keep_when = (a, b) == ('0', '1')
        elif l == 'self.p' and r == dname:
            if isinstance(op, (ast.Lt, ast.LtE)):
                keep_when = (a, b) == ('1', '0')
            elif isinstance(op, (ast.Gt, ast.GtE)):
                keep_when = (a, b) == ('0', '1')
        ok = keep_when is True
        why = 'an element must be kept iff its draw exceeds p (zeroed with probability p); got %s ? %s : %s' % (norm(cmp_), a, b)
    R.ob('C13.DROP-TRAIN', f.qualname, norm(masks[0][0]) if masks else 'no mask', ok, why, f.loc)
    mname = norm(masks[0][0].targets[0]) if masks else None
    # scaling
    scales = [n for n in body_walk(f.node) if isinstance(n, ast.Assign) and isinstance(n.value, ast.BinOp) and isinstance(n.value.op, (ast.Div, ast.Mult)) and mname in names_in(n.value)]
    ok = len(scales) == 1
    if ok:
        try:
            t = TermBuilder({}, lambda e: P.atom(norm(e)) if isinstance(e, ast.Attribute) else None).build(scales[0].value)
            ok = t == P.atom(mname) / (1 - P.atom('self.p'))
        except (Unsupported, ZeroDivisionError):
            ok = False
        fs = {(t_, p) for t_, p, _ in facts_at(cfg, scales[0])}
        ok = ok and (('self.p < 1', True) in fs or ('self.p != 1', True) in fs or ('self.p >= 1', False) in fs or ('self.p == 1', False) in fs)
    R.ob('C13.DROP-TRAIN', f.qualname, norm(scales[0]) if scales else 'no scaling', ok, 'survivors must be scaled by exactly 1/(1-p), guarded against p == 1', f.loc)
    # result = x * Tensor(mask) through the mul operator, mask tensor without grad
    rets = [n for n in body_walk(f.node) if isinstance(n, ast.Return) and n is not (first.body[0] if isinstance(first, ast.If) else None)]
    ok = len(rets) == 1 and isinstance(rets[0].value, ast.BinOp) and isinstance(rets[0].value.op, ast.Mult)
    tname = None
    if ok:
        l, r = norm(rets[0].value.left), norm(rets[0].value.right)
        ok = x in (l, r)
        tname = r if l == x else l
    R.ob('C13.DROP-TRAIN', f.qualname, norm(rets[0]) if rets else 'no return', ok, 'the output must be the product op of the input and the mask tensor (backward then uses the same mask, no second draw)', f.loc)
    tb = [n for n in body_walk(f.node) if isinstance(n, ast.Assign) and norm(n.targets[0]) == tname]
    ok = len(tb) == 1 and isinstance(tb[0].value, ast.Call) and model.resolve(f.mod, tb[0].value.func) in ('synapgrad.tensor.tensor', 'synapgrad.tensor.Tensor') and norm(tb[0].value.args[0]) == mname \
        and not any(k.arg == 'requires_grad' and not (isinstance(k.value, ast.Constant) and k.value.value is False) for k in tb[0].value.keywords)
    R.ob('C13.DROP-TRAIN', f.qualname, norm(tb[0]) if tb else 'no mask tensor', ok, 'the mask tensor wraps the scaled mask and does not require grad', f.loc)
    # MODE-SOURCE
    modes = {norm(n) for n in ast.walk(f.node) if isinstance(n, ast.Attribute) and n.attr in ('training', 'eval_mode', 'mode')}
    R.ob('C13.MODE-SOURCE', f.qualname, 'mode reads %s' % sorted(modes), modes == {'self.training'}, 'the mode must come from self.training only', f.loc)


def check_bn(model, R):
    f = model.func(LMOD + '.BatchNorm.forward')
    cfg = CFG(f.node)
    call = [c for c in ast.walk(f.node) if isinstance(c, ast.Call) and model.resolve(f.mod, c.func) == 'synapgrad.nn.functional.batch_norm']
    if len(call) != 1:
        R.incomplete_at('C13.BN-CHOICE', f.qualname, 'call of F.batch_norm not found')
        return
    wrapper = model.func('synapgrad.nn.functional.batch_norm')
    kern = model.func('synapgrad.cpu_ops.batch_norm_forward')
    b, _ = bind_call(call[0], wrapper)
    modes = {norm(n) for n in ast.walk(f.node) if isinstance(n, ast.Attribute) and n.attr in ('training',)}
    R.ob('C13.MODE-SOURCE', f.qualname, 'mode reads %s' % sorted(modes), modes == {'self.training'}, 'the mode must come from self.training only', f.loc)

    # ---- symbolic evaluation of the layer's locals under a valuation (T, K, B)
    def layer_value(name_expr, T, K, B):
        """boolean meaning of a local: for bn_training its truth value, for running_* 'is it a buffer (not None)'"""
        def val(t):
            if t == 'self.training': return T
            if t == 'self.track_running_stats': return K
            if t in ('self.running_mean is None', 'self.running_var is None'): return not B
            if t in ('self.running_mean is not None', 'self.running_var is not None'): return B
            raise Incomplete('atom %s' % t)
        if isinstance(name_expr, ast.Name):
            # find the binding(s): plain / under if-else
            binds = [n for n in body_walk(f.node) if isinstance(n, ast.Assign) and norm(n.targets[0]) == name_expr.id]
            for n in binds:
                if all(eval_bool(e, val) == p for e, p in cfg.conditions(n)):
                    v = n.value
                    if isinstance(v, ast.IfExp):
                        v = v.body if eval_bool(v.test, val) else v.orelse
                    if isinstance(v, ast.Constant):
                        return v.value if isinstance(v.value, bool) else (False if v.value is None else v.value)
                    if norm(v) in ('self.running_mean', 'self.running_var'):
                        return B
                    return eval_bool(v, val)
            raise Incomplete('no binding of %s applies' % name_expr.id)
        if norm(name_expr) in ('self.running_mean', 'self.running_var'):
            return B
        return eval_bool(name_expr, val)

    # kernel predicates: uses running iff <test>; updates iff <guard>
    use_tests, upd_guards = {}, {}
    kcfg = CFG(kern.node)
    for n in body_walk(kern.node):
        if isinstance(n, ast.Assign) and isinstance(n.value, ast.IfExp) and isinstance(n.value.body, ast.Name) and n.value.body.id.startswith('running_'):
            use_tests[n.value.body.id] = n.value.test
        if isinstance(n, ast.Assign) and isinstance(n.targets[0], ast.Name) and n.targets[0].id.startswith('running_') and kcfg.conditions(n):
            upd_guards[n.targets[0].id] = [(e, p) for e, p in kcfg.conditions(n)]
    if set(use_tests) != {'running_mean', 'running_var'} or set(upd_guards) != {'running_mean', 'running_var'}:
        R.incomplete_at('C13.BN-CHOICE', kern.qualname, 'kernel selection / update predicates not found')
        return
    bad_use, bad_upd = [], []
    try:
        for T, K, B in itertools.product((False, True), repeat=3):
            for stat in ('running_mean', 'running_var'):
                present = layer_value(b[stat], T, K, B)
                bn_tr = layer_value(b['training'], T, K, B)
                def kval(t, present=present, bn_tr=bn_tr, stat=stat):
                    if t == 'training': return bn_tr
                    if t == '%s is not None' % stat: return present
                    if t == '%s is None' % stat: return not present
                    raise Incomplete('kernel atom %s' % t)
                uses = eval_bool(use_tests[stat], kval)
                upd = all(eval_bool(e, kval) == p for e, p in upd_guards[stat])
                if uses != (B and not T):
                    bad_use.append(dict(training=T, track=K, buffers=B, stat=stat, uses_running=uses))
                if upd != (T and K and B):
                    bad_upd.append(dict(training=T, track=K, buffers=B, stat=stat, updates=upd))
    except Incomplete as e:
        R.incomplete_at('C13.BN-CHOICE', f.qualname, str(e))
        return
    R.ob('C13.BN-CHOICE', f.qualname, 'statistics choice over 8 valuations', not bad_use, 'running statistics must be used iff eval mode and buffers exist; differs for %s' % bad_use[:3], f.loc)
    R.ob('C13.BN-CHOICE', f.qualname, 'update predicate over 8 valuations', not bad_upd, 'running statistics must be updated iff training and track_running_stats (eval must never write them); differs for %s' % bad_upd[:3], f.loc)
    # ---- BN-ONCE
    incs = [n for n in ast.walk(f.node) if isinstance(n, (ast.AugAssign, ast.Assign)) and 'num_batches_tracked' in norm(n.target if isinstance(n, ast.AugAssign) else n.targets[0])]
    ok = len(incs) == 1 and isinstance(incs[0], ast.AugAssign) and isinstance(incs[0].op, ast.Add) and norm(incs[0].value) == '1' and not cfg.in_loop(incs[0])
    if ok:
        fs = {(t, p) for t, p, _ in facts_at(cfg, incs[0])}
        need = {('self.training', True), ('self.track_running_stats', True)}
        extra = {x for x in fs - need if x != ('self.num_batches_tracked is not None', True)}
        ok = need <= fs and not extra
    R.ob('C13.BN-ONCE', f.qualname, norm(incs[0]) if incs else 'no counter update', ok, 'the batch counter must advance by exactly one per training forward with tracking, and never otherwise', f.loc)
    fac = b.get('momentum')
    ok = isinstance(fac, ast.Name)
    if ok:
        binds = [n for n in body_walk(f.node) if isinstance(n, ast.Assign) and norm(n.targets[0]) == fac.id]
        cma = [n for n in binds if norm(n.value).replace(' ', '') in ('1.0/float(self.num_batches_tracked)', '1/self.num_batches_tracked', '1.0/self.num_batches_tracked')]
        ema = [n for n in binds if norm(n.value) == 'self.momentum']
        ok = len(cma) == 1 and bool(ema)
        if ok:
            fs = {(t, p) for t, p, _ in facts_at(cfg, cma[0])}
            ok = ('self.momentum is None', True) in fs and incs and cma[0].lineno > incs[0].lineno and cfg.dominates(incs[0], cma[0])
            for e in ema:
                fe = {(t, p) for t, p, _ in facts_at(cfg, e)}
                ok = ok and (('self.momentum is None', False) in fe)
    R.ob('C13.BN-ONCE', f.qualname, 'averaging factor %s' % (norm(fac) if fac is not None else None), ok, 'factor = momentum, or 1/num_batches_tracked read AFTER the increment when momentum is None (cumulative average)', f.loc)
    R.ob('C13.BN-ONCE', f.qualname, 'F.batch_norm called once', not cfg.in_loop(_stmt_of(f, call[0])) and not cfg.conditions(_stmt_of(f, call[0])), 'one normalisation (and at most one update) per forward', f.loc)
    # ---- BN-UPDATE (kernel normal forms)
    env = {}
    def atom_of(e):
        t = norm(e)
        if t == 'x.size': return P.atom('size')
        if t == 'x.shape[1]': return P.atom('C')
        if isinstance(e, (ast.Attribute, ast.Subscript)): return P.atom(t)
        return None
    upd = {}
    for n in sorted([x for x in body_walk(kern.node) if isinstance(x, ast.Assign) and isinstance(x.targets[0], ast.Name)], key=lambda x: x.lineno):
        nm = n.targets[0].id
        if isinstance(n.value, ast.IfExp) or nm in ('normed_dims', 'keepdims_shape', 'std', 'x_norm'):
            continue
        try:
            t = TermBuilder(env, atom_of, model, kern.mod).build(n.value)
        except Unsupported:
            continue
        if nm.startswith('running_'):
            upd[nm] = (t, n)
        else:
            env[nm] = t
    n_ = P.atom('size') / P.atom('C')
    mean, var, mom = P.atom('mean'), P.atom('var'), P.atom('momentum')
    want = {'running_mean': mean * mom + P.atom('running_mean') * (1 - mom), 'running_var': var * (n_ / (n_ - 1)) * mom + P.atom('running_var') * (1 - mom)}
    for k, w in want.items():
        got = upd.get(k)
        ok = got is not None and got[0] == w
        R.ob('C13.BN-UPDATE', kern.qualname, '%s <- %s' % (k, got[0].canon()[:120] if got else None), ok, 'documented moving average: %s' % w.canon()[:160], kern.loc)
        if got:
            fs = {(t, p) for t, p, _ in facts_at(kcfg, got[1])}
            R.ob('C13.BN-UPDATE', kern.qualname, 'guard of %s update: %s' % (k, sorted(fs)), ('training', True) in fs and ('%s is not None' % k, True) in fs, 'running statistics may only be written in training mode when the buffer exists', kern.loc)
    # variance used for normalising is the biased one
    vb = [n for n in body_walk(kern.node) if isinstance(n, ast.Assign) and norm(n.targets[0]) == 'var']
    ok = len(vb) == 1 and isinstance(vb[0].value, ast.IfExp) and 'ddof' not in norm(vb[0].value) and norm(vb[0].value.orelse).replace(' ', '').startswith(('x.var(', 'np.var(x,'))
    R.ob('C13.BN-UPDATE', kern.qualname, norm(vb[0]) if vb else 'no var', ok, 'normalisation uses the biased batch variance (no ddof); only the running update is unbiased', kern.loc)
    # wrapper write-back: both, once, from the kernel results
    wcfg = CFG(wrapper.node)
    kc = [n for n in body_walk(wrapper.node) if isinstance(n, ast.Assign) and isinstance(n.value, ast.Call) and model.resolve(wrapper.mod, n.value.func) == kern.qualname]
    ok = len(kc) == 1 and isinstance(kc[0].targets[0], ast.Tuple)
    if ok:
        names = [norm(e) for e in kc[0].targets[0].elts]
        rets = [n for n in body_walk(kern.node) if isinstance(n, ast.Return)]
        rnames = [norm(e) for e in rets[0].value.elts] if rets and isinstance(rets[0].value, ast.Tuple) else []
        wb = [n for n in body_walk(wrapper.node) if isinstance(n, ast.Assign) and isinstance(n.targets[0], ast.Attribute) and n.targets[0].attr == 'data']
        okw = len(wb) == 2
        for n in wb:
            tgt = norm(n.targets[0].value)
            src = norm(n.value)
            idx = names.index(src) if src in names else -1
            okw = okw and idx >= 0 and idx < len(rnames) and rnames[idx] == tgt and not wcfg.in_loop(n)
            fs = {(t, p) for t, p, _ in facts_at(wcfg, n)}
            okw = okw and (('%s is not None' % src, True) in fs)
        ok = okw
    R.ob('C13.BN-UPDATE', wrapper.qualname, 'write-back of running_mean / running_var from the kernel results', ok, 'each running buffer must be assigned once from the kernel\'s result for THAT buffer', wrapper.loc)
