"""C11 - forward and backward never modify operands, targets or the caller's gradient (effects / ownership)."""
import ast
from sa import opcat, rules_engine as E
from sa.core import norm, body_walk, dotted, names_in, inline_expr
from sa.absint import Interp
from sa.domains.alias import Alias
from sa.report import Incomplete

KMODS = ('synapgrad.cpu_ops', 'synapgrad.conv_tools')
# who may write Tensor.data (one line of reason each)
DATA_WRITERS = {
    'synapgrad.tensor.Tensor.__init__': 'constructor installs the storage',
    'synapgrad.optim.optimizers.SGD.step': 'documented in-place parameter update',
    'synapgrad.optim.optimizers.Adam.step': 'documented in-place parameter update',
    'synapgrad.optim.optimizers.AdamW.step': 'documented in-place parameter update',
    'synapgrad.nn.init.uniform_': 'documented initialiser', 'synapgrad.nn.init.normal_': 'documented initialiser',
    'synapgrad.nn.init.constant_': 'documented initialiser', 'synapgrad.nn.init.ones_': 'documented initialiser', 'synapgrad.nn.init.zeros_': 'documented initialiser',
    'synapgrad.nn.functional.batch_norm': 'running statistics (running_mean / running_var only)',
}
RANDOM_PREFIXES = ('numpy.random', 'random.', 'time.', 'datetime.', 'os.urandom', 'uuid.', 'secrets.')

FIXTURE = '''
import numpy as np
def control_inplace_kernel(a: np.ndarray, b: np.ndarray):
    out = a
    out += b
    return out
def control_view_store(a: np.ndarray, idx):
    v = a.reshape(-1)
    v[idx] = 0
    return v
'''


def pure_scan(model, R, rule, funcs):
    n = 0
    for f in funcs:
        I = Interp(model, f, Alias())
        try:
            I.run()
        except Incomplete as e:
            R.incomplete_at(rule, f.qualname, str(e))
            continue
        muts = [e for e in I.events if e['kind'] == 'mutation']
        seen = set()
        for e in muts:
            key = (e['loc'], tuple(e['params']))
            if key in seen:
                continue
            seen.add(key)
            R.ob(rule, f.qualname, norm(e['stmt'] or e['node'])[:100], False,
                 'in-place effect (%s) on storage that may alias parameter(s) %s of %s (effect site %s in %s)' % (e['how'], e['params'], f.name, e['loc'], e['func']), e['loc'])
        if not muts:
            R.ob(rule, f.qualname, 'no in-place effect on parameter storage', True, '', f.loc)
        n += 1
    return n


# forward kernels whose FIRST result is new storage (may-alias analysis on the tree the table was written against; the view kernels - slice, unbind, squeeze, unsqueeze,
# reshape, movedim, transpose, unfold_dim - are the only ones that may hand back the operand's storage, as PyTorch does)
FRESH_RESULT = ['add_forward', 'mul_forward', 'matmul_forward', 'addmm_forward', 'pow_forward', 'rpow_forward', 'neg_forward', 'concat_forward', 'stack_forward', 'clone_forward',
                'exp_forward', 'log_forward', 'sqrt_forward', 'sum_forward', 'mean_forward', 'max_forward', 'min_forward', 'relu_forward', 'leaky_relu_forward', 'selu_forward',
                'tanh_forward', 'sigmoid_forward', 'softmax_forward', 'log_softmax_forward', 'mse_loss_forward', 'nll_loss_forward', 'bce_loss_forward',
                'bce_with_logits_loss_forward', 'cross_entropy_loss_forward', 'max_pool1d_forward', 'avg_pool1d_forward', 'max_pool2d_forward', 'avg_pool2d_forward',
                'conv1d_forward', 'conv2d_forward', 'batch_norm_forward']


def check_result_fresh(model, R):
    """the result of a computing (non-view) forward kernel never shares storage with an operand: a later documented in-place call on the operand (optimizer step,
    initialiser, zeroing) would silently change the result, and vice versa"""
    from sa.absint import Tup
    from sa.domains.alias import FRESH
    R.rule('C11.RESULT-FRESH', 'the first result of every computing forward kernel is new storage on every path (may-alias abstract interpretation); only the view kernels may '
                               'return the operand\'s storage', floor=len(FRESH_RESULT) - 2)
    for name in FRESH_RESULT:
        f = model.funcs.get('synapgrad.cpu_ops.' + name)
        if f is None:
            R.incomplete_at('C11.RESULT-FRESH', 'synapgrad.cpu_ops.' + name, 'kernel not found')
            continue
        try:
            I = Interp(model, f, Alias())
            r = I.run()
        except Incomplete as e:
            R.incomplete_at('C11.RESULT-FRESH', f.qualname, str(e))
            continue
        items = r.items if isinstance(r, Tup) else [r]
        c = I.domain.c(items[0]) if items else FRESH
        R.ob('C11.RESULT-FRESH', f.qualname, 'result storage: %s' % ('fresh' if c == FRESH else 'may alias %s' % sorted(c)), c == FRESH,
             'on some path the kernel returns (a view of) its operand %s: the result tensor then shares memory with the operand' % (sorted(c) if c != FRESH else ''), f.loc)


def check(model, R, tier):
    ops, problems = opcat.catalogue(model)
    for q, why in problems:
        R.incomplete_at('C11.WRAPPER-PURE', q, why)
    # ---- KERNEL-PURE
    kfuncs = [f for m in KMODS for f in model.module_functions(m)]
    R.rule('C11.KERNEL-PURE', 'no kernel of cpu_ops.py / conv_tools.py performs an in-place effect on a value that may alias one of its parameters (may-alias abstract interpretation, '
                              'interprocedural through repo callees)', floor=95)
    pure_scan(model, R, 'C11.KERNEL-PURE', kfuncs)
    check_result_fresh(model, R)
    from sa import rules_hygiene as _H
    _H.check_global_state(model, R, 'C11')
    _H.check_memo(model, R, 'C11')
    R.analysed['kernels'] = len(kfuncs)
    # positive control: the rule must fire on a fixture with an in-place update of a parameter and of a view of a parameter
    fx = model.add_fixture_module('synapgrad._fixture_c11', FIXTURE)

    class _Probe:
        def __init__(self): self.bad = 0
        def ob(self, rule, where, construct, ok, detail='', loc=''):
            self.bad += (not ok)
        def incomplete_at(self, *a): pass
    probe = _Probe()
    pure_scan(model, probe, 'control', [model.func('synapgrad._fixture_c11.control_inplace_kernel'), model.func('synapgrad._fixture_c11.control_view_store')])
    if probe.bad < 2:
        R.incomplete_at('C11.KERNEL-PURE', 'fixture', 'positive control did not fire (%d/2): the effect analysis is broken' % probe.bad)
    del model.modules['synapgrad._fixture_c11']
    for q in list(model.funcs):
        if q.startswith('synapgrad._fixture_c11'):
            del model.funcs[q]
    # ---- WRITERS of .data, package wide
    R.rule('C11.WRITERS', 'Tensor.data is written only by the constructor, optimizer steps, nn.init fillers and batch_norm running statistics', floor=12)
    for fn in model.live_funcs():
        if fn.mod.modname == 'synapgrad.visual.graph':
            continue
        for n in body_walk(fn.node):
            tg, how = [], None
            if isinstance(n, ast.Assign):
                tg, how = n.targets, 'assignment'
            elif isinstance(n, ast.AugAssign):
                tg, how = [n.target], 'augmented assignment'
            for t in tg:
                base = t
                while isinstance(base, ast.Subscript):
                    base = base.value
                if isinstance(base, ast.Attribute) and base.attr == 'data':
                    ok = fn.qualname in DATA_WRITERS
                    if fn.qualname == 'synapgrad.nn.functional.batch_norm':
                        ok = isinstance(base.value, ast.Name) and base.value.id in ('running_mean', 'running_var')
                    R.ob('C11.WRITERS', fn.qualname, norm(n), ok, 'tensor storage written outside the documented writers', '%s:%d' % (fn.mod.relpath, n.lineno))
            if isinstance(n, ast.Call):
                # in-place library calls on <x>.data
                tgt = None
                d = model.resolve(fn.mod, n.func)
                if d and (d.endswith('.at') or d in ('numpy.copyto', 'numpy.put_along_axis', 'numpy.put', 'numpy.place', 'numpy.putmask')) and n.args:
                    tgt = n.args[0]
                elif isinstance(n.func, ast.Attribute) and n.func.attr in ('fill', 'sort', 'resize', 'itemset', 'put'):
                    tgt = n.func.value
                for k in n.keywords:
                    if k.arg == 'out':
                        tgt = k.value
                if tgt is not None and any(isinstance(x, ast.Attribute) and x.attr == 'data' for x in ast.walk(tgt)):
                    R.ob('C11.WRITERS', fn.qualname, norm(n)[:100], fn.qualname in DATA_WRITERS, 'in-place library call on tensor storage', '%s:%d' % (fn.mod.relpath, n.lineno))
    # ---- WRAPPER-PURE: op wrappers and their closures write nothing on their operands but <child>._grad +=
    R.rule('C11.WRAPPER-PURE', 'op wrappers and backward closures store nothing into their arguments except `<child>._grad += ...` (and batch_norm running statistics)', floor=48)
    for op in ops:
        fn = op.func
        params = set(fn.params)
        bad = []
        for scope in [fn] + op.closures:
            for n in body_walk(scope.node):
                tg = []
                if isinstance(n, ast.Assign):
                    tg = n.targets
                elif isinstance(n, ast.AugAssign):
                    tg = [n.target]
                elif isinstance(n, ast.Delete):
                    tg = n.targets
                for t in tg:
                    base = t
                    while isinstance(base, (ast.Subscript, ast.Attribute)):
                        last = base
                        base = base.value
                    if isinstance(base, ast.Name) and (base.id in params or base.id in [c.name for c in op.children]) and not isinstance(t, ast.Name):
                        if isinstance(t, ast.Attribute) and t.attr == '_grad' and isinstance(n, ast.AugAssign) and scope in op.closures:
                            continue
                        if op.qual == 'synapgrad.nn.functional.batch_norm' and isinstance(t, ast.Attribute) and t.attr == 'data' and base.id in ('running_mean', 'running_var'):
                            continue
                        if isinstance(t, ast.Attribute) and t.attr == '_grad':
                            continue    # judged by C01/C02.ACC
                        bad.append(norm(n))
        R.ob('C11.WRAPPER-PURE', op.qual, 'stores into arguments: %s' % bad, not bad, 'an op must not write attributes / elements of its operands', fn.loc)
    # ---- COPY
    R.rule('C11.COPY', 'clone() and detach() return storage independent of their source', floor=2)
    det = model.func('synapgrad.tensor.Tensor.detach')
    rets = [n for n in body_walk(det.node) if isinstance(n, ast.Return)]
    rv = inline_expr(det.node, rets[0].value) if len(rets) == 1 else None
    ok = len(rets) == 1 and isinstance(rv, ast.Call) and rv.args and E.fresh_expr(model, det, rv.args[0]) \
        and 'self.data' in norm(rv.args[0])
    R.ob('C11.COPY', det.qualname, norm(rets[0].value) if rets else 'no return', ok, 'detach must wrap a copy of self.data', det.loc)
    cf = model.func('synapgrad.cpu_ops.clone_forward')
    I = Interp(model, cf, Alias())
    r = I.run()
    R.ob('C11.COPY', cf.qualname, 'return aliases %s' % sorted(I.domain.c(r)), not I.domain.c(r), 'clone_forward must return fresh storage (it may alias its argument)', cf.loc)
    clone = [o for o in ops if o.name == 'clone']
    R.ob('C11.COPY', 'synapgrad.functional.clone', 'forward kernel %s' % [d for o in clone for d, _ in o.fwd_calls], bool(clone) and all(d.endswith('clone_forward') for o in clone for d, _ in o.fwd_calls),
         'clone must go through the copying kernel', clone[0].func.loc if clone else '')
    # ---- GRAD-OWNED
    B = E.BackwardInfo(model)
    E.check_seed_owned(model, R, 'C11', B)
    E.check_release_predicate(model, R, 'C11', B)      # releasing the buffer of a tensor that is not an intermediate result of THIS graph changes a gradient outside it
    R.rules['C11.GRAD-OWNED'] = R.rules.pop('C11.SEED-OWNED')
    R.floors['C11.GRAD-OWNED'] = R.floors.pop('C11.SEED-OWNED')
    R.counts['C11.GRAD-OWNED'] = R.counts.pop('C11.SEED-OWNED')
    for o in R.obligations:
        if o['rule'] == 'C11.SEED-OWNED':
            o['rule'] = 'C11.GRAD-OWNED'
    E.check_reset(model, R, 'C11')
    # ---- DET
    R.rule('C11.DET', 'no op wrapper or kernel reads a random source or a clock', floor=150)
    scope = [f for f in model.live_funcs() if f.mod.modname in KMODS + ('synapgrad.functional', 'synapgrad.nn.functional')]
    for f in scope:
        hits = []
        for c in body_walk(f.node):
            if isinstance(c, ast.Call):
                d = model.resolve(f.mod, c.func)
                if d and d.startswith(RANDOM_PREFIXES):
                    hits.append(d)
        R.ob('C11.DET', f.qualname, 'random/clock calls: %s' % hits, not hits, 'results of ops must be a deterministic function of their operands', f.loc)
    # informational: results that are views of operands
    views = []
    for f in kfuncs:
        if f.name.endswith('_forward'):
            I = Interp(model, f, Alias())
            try:
                r = I.run()
                s = I.domain.c(r)
                if s:
                    views.append('%s -> view of %s' % (f.name, sorted(s)))
            except Incomplete:
                pass
    R.note('forward kernels whose result may be a VIEW of an operand (legal aliasing; an in-place op on results would be caught by KERNEL-PURE): ' + '; '.join(views))
    return dict(
        explanation='Effect/ownership analysis: may-alias abstract interpretation of all %d kernels (no in-place effect reaches parameter storage, incl. through views and callees), '
                    'package-wide who-may-write table for Tensor.data, purity of the 48 wrappers/closures, fresh storage for clone/detach and for every array that becomes a gradient buffer, '
                    'and absence of random/clock sources on the op call graph. Bit-identical repeatability of NumPy/BLAS itself is not decided.' % len(kfuncs),
        assumptions=['NumPy view/copy semantics as frozen in sa/domains/alias.py (fancy indexing conservatively treated as a view)', 'user code does not write Tensor.data directly'],
        technique='may-alias abstract interpretation + who-may-write scan + positive-control fixture')
