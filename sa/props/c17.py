"""C17 - backward scales to deep graphs; untracked computations keep no history."""
from sa import opcat, rules_template as T, rules_engine as E


def check(model, R, tier):
    ops, problems = opcat.catalogue(model)
    for q, why in problems:
        R.incomplete_at('C17.NOHISTORY', q, why)
    B = E.check_topo(model, R, 'C17')
    E.check_norecurse(model, R, 'C17', B)
    E.check_once(model, R, 'C17', B)
    E.check_visited_is_set(model, R, 'C17', B)
    E.check_nohistory(model, R, 'C17', ops)
    from sa import rules_hygiene as _H
    _H.check_result_name(model, R, 'C17', ops)
    E.check_release_predicate(model, R, 'C17', B)
    return dict(
        explanation='Decides: no function on the call graph of Tensor.backward is recursive (depth is not bounded by the interpreter stack); each recorded op is invoked once from one '
                    'call site and the traversal does O(1) work per edge (set membership); results that do not require grad store no children and backward closures escape only through the '
                    'guarded grad_fn attach; intermediate gradients are released after the sweep. Actual time/memory is not measured.',
        assumptions=['CPython recursion limit applies to Python-level recursion only'],
        technique='call-graph cycle detection + traversal idiom recognition + escape analysis of closures')
