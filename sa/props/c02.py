"""C02 - backward of every nn op/layer/loss is the exact VJP (structural part)."""
import ast
from sa import opcat, rules_template as T, rules_kernel as K
from sa.core import norm, body_walk, dotted
from sa.cfg import CFG, facts_at
from sa.props.c01 import ops_of

MOD = 'synapgrad.nn.functional'
POOLS = [('synapgrad.cpu_ops.%s_forward' % n, 'synapgrad.cpu_ops.%s_backward' % n) for n in ('max_pool1d', 'avg_pool1d', 'max_pool2d', 'avg_pool2d')]


def check(model, R, tier):
    ops, problems = ops_of(model, MOD)
    for q, why in problems:
        R.incomplete_at('C02.WRAP', q, why)
    R.rule('C02.CATALOGUE', 'every nn op wrapper of synapgrad/nn/functional.py is an instance of the op template', floor=22)
    for o in ops:
        R.ob('C02.CATALOGUE', o.qual, 'template instance', True, '', o.func.loc)
    R.analysed['ops'] = [o.name for o in ops]
    T.check_ops(model, R, ops, 'C02')
    from sa.rules_flags import check_flags
    check_flags(model, R, 'C02', 'synapgrad.nn.functional', rules=('COVER',))
    from sa.rules_flags import check_presence
    check_presence(model, R, 'C02')
    K.check_glin(model, R, ops, 'C02')
    K.check_homog(model, R, 'C02', names=('addmm_backward', 'matmul_backward', 'conv1d_backward', 'conv2d_backward', 'batch_norm_backward'))
    kernels = [model.func(d) for d in sorted({d for o in ops for d, _, _ in o.bwd_calls})]
    R.analysed['backward_kernels'] = [k.qualname for k in kernels]
    K.check_dep(model, R, 'C02', kernels)
    K.check_scatter(model, R, kernels + [model.func('synapgrad.conv_tools.place_windows')], 'C02', floor=1)
    K.check_viewstore(model, R, [f_ for f_ in model.module_functions('synapgrad.cpu_ops')] + ([f_ for f_ in model.module_functions('synapgrad.conv_tools')] if 'C02' == 'C02' else []), 'C02')
    K.check_literal_perm_pairs(model, R, 'C02', POOLS)
    K.check_axisgen(model, R, 'C02', ['synapgrad.cpu_ops.softmax_forward', 'synapgrad.cpu_ops.softmax_backward',
                                       'synapgrad.cpu_ops.log_softmax_forward', 'synapgrad.cpu_ops.log_softmax_backward'])
    from sa import deriv
    deriv.check_deriv(model, R, 'C02', ['tanh', 'sigmoid', 'mse_loss'])
    check_bn_mode(model, R)
    from sa import rules_hygiene as _H
    _H.check_dim_tests(model, R, 'C02', scope='backward', modules=('synapgrad.cpu_ops', 'synapgrad.nn.functional'), floor=12)
    from sa.rules_defn import check_deriv_x
    check_deriv_x(model, R, 'C02')
    check_poolpair(model, R)
    check_layers(model, R, ops)
    return dict(
        explanation='Static check of the 22 nn op wrappers, their backward kernels (cpu_ops / conv_tools) and the layer/loss modules that reach them: '
                    'template wiring and binding, operand coverage, linearity in the upstream gradient, must-dependence of every gradient slot on its saved values, '
                    'axis-genericity of softmax kernels, forward/backward agreement of the batch-norm mode predicate, pooling geometry/permutation pairing. '
                    'It does NOT decide the numerical correctness of any closed form.',
        assumptions=['NumPy API roles as frozen in sa/domains', 'dependence table in sa/rules_kernel.py (confirmed by reading)'],
        technique='op-template extraction + abstract interpretation (linearity, must-dependence) + term differentiation (polynomial and exp/log normal forms) + partial evaluation (flag valuations; batch-norm kernels under all mode valuations)')


# ---------------------------------------------------------------------------------------- batch-norm mode predicates
def _eval_bool(e, val):
    """evaluate a boolean expression over atoms given by val(text)->bool"""
    if isinstance(e, ast.BoolOp):
        vs = [_eval_bool(v, val) for v in e.values]
        return all(vs) if isinstance(e.op, ast.And) else any(vs)
    if isinstance(e, ast.UnaryOp) and isinstance(e.op, ast.Not):
        return not _eval_bool(e.operand, val)
    return val(norm(e))


def check_bn_mode(model, R):
    R.rule('C02.MODE', 'batch_norm_backward differentiates with constant statistics exactly when batch_norm_forward normalised with the running buffers '
                       '(kernels partially evaluated under the 4 valuations of training x stats-present; result terms compared)', floor=2)
    from sa.rules_bn import check_mode_pair
    check_mode_pair(model, R)


# ---------------------------------------------------------------------------------------- pooling geometry pairing
def check_poolpair(model, R):
    R.rule('C02.POOLPAIR', 'each pool backward hands place_windows the geometry the forward handed extract_windows (same parameter per role) and the matching pad value / reducer pair', floor=4)
    for fq, bq in POOLS:
        fk, bk = model.func(fq), model.func(bq)
        ew = [n for n in body_walk(fk.node) if isinstance(n, ast.Call) and dotted(n.func) == 'extract_windows']
        pw = [n for n in body_walk(bk.node) if isinstance(n, ast.Call) and dotted(n.func) == 'place_windows']
        if len(ew) != 1 or len(pw) != 1:
            R.incomplete_at('C02.POOLPAIR', bq, 'expected one extract_windows / place_windows call')
            continue
        ef = model.func('synapgrad.conv_tools.extract_windows')
        pf = model.func('synapgrad.conv_tools.place_windows')
        eb, _ = T.bind_call(ew[0], ef)
        pb, _ = T.bind_call(pw[0], pf)
        roles = {r: (norm(eb[r]) if r in eb else None, norm(pb[r]) if r in pb else None) for r in ('kernel_size', 'step', 'padding', 'dilation')}
        ok = all(a == b and a is not None for a, b in roles.values())
        R.ob('C02.POOLPAIR', bq, 'geometry roles %s' % roles, ok, 'extract_windows and place_windows must receive the same kernel parameter for each geometry role', bk.loc)
        osh = pb.get('out_shape')
        R.ob('C02.POOLPAIR', bq, 'out_shape=%s' % (norm(osh) if osh is not None else None), osh is not None and norm(osh) == 'a_shape',
             'windows must be placed back into an array of the operand shape', bk.loc)
        # reducer pairing: max <-> max_backward, mean <-> mean_backward
        from sa.npcanon import npname
        fred = [npname(model, fk, n) for n in body_walk(fk.node) if isinstance(n, ast.Call) and npname(model, fk, n) in ('max', 'mean', 'min', 'sum')]
        bred = [dotted(n.func) for n in body_walk(bk.node) if isinstance(n, ast.Call) and dotted(n.func) in ('max_backward', 'mean_backward', 'min_backward', 'sum_backward')]
        R.ob('C02.POOLPAIR', bq, 'reducer %s / %s' % (fred, bred), len(fred) == 1 and bred == [fred[0] + '_backward'],
             'the window reduction of the forward and the reducer backward must be siblings', bk.loc)


# ---------------------------------------------------------------------------------------- layers / losses reach the ops with their own parameters
def check_layers(model, R, ops):
    opnames = {o.qual for o in ops} | {o.qual for o in opcat.catalogue(model)[0]}
    classes = [c for c in model.subclasses('synapgrad.nn.modules.Module') if c.mod.modname in ('synapgrad.nn.layers', 'synapgrad.nn.activations', 'synapgrad.nn.losses')]
    R.rule('C02.LAYER', 'every layer / activation / loss module forward reaches a catalogue op and hands it its own registered parameters', floor=20)
    tensor_cls = model.cls('synapgrad.tensor.Tensor')
    for c in classes:
        fw = c.methods.get('forward')
        if fw is None:
            continue
        hits = []
        for n in body_walk(fw.node):
            if isinstance(n, ast.Call):
                d = model.resolve(fw.mod, n.func)
                if d in opnames:
                    hits.append((d, n))
                elif isinstance(n.func, ast.Attribute) and n.func.attr in tensor_cls.methods and not isinstance(n.func.value, ast.Name) is False:
                    # tensor method forwarding to an op (x.flatten(...))
                    m = tensor_cls.methods[n.func.attr]
                    for cc in body_walk(m.node):
                        if isinstance(cc, ast.Call):
                            dd = model.resolve(m.mod, cc.func)
                            if dd in opnames and isinstance(n.func.value, ast.Name) and n.func.value.id in fw.params:
                                hits.append((dd, n))
            if isinstance(n, ast.BinOp) and isinstance(n.op, (ast.Mult, ast.Add, ast.Sub, ast.MatMult)):
                hits.append(('operator', n))
        R.ob('C02.LAYER', c.qualname, 'forward reaches %s' % sorted({h[0].split('.')[-1] for h in hits}), bool(hits),
             'forward must be built from catalogue ops so that its backward is the ops\' backward', fw.loc)
        # parameters assigned in __init__ as Parameter(...) must be passed to the op
        init = model.find_method(c, '__init__')
        pnames = set()
        for k in model.mro(c):
            ini = k.methods.get('__init__')
            if ini is None:
                continue
            for n in body_walk(ini.node):
                if isinstance(n, ast.Assign) and isinstance(n.targets[0], ast.Attribute) and isinstance(n.targets[0].value, ast.Name) and n.targets[0].value.id == 'self' \
                        and isinstance(n.value, ast.Call) and (model.resolve(ini.mod, n.value.func) or '').endswith('.Parameter'):
                    pnames.add(n.targets[0].attr)
        if pnames and hits:
            used = set()
            for d, call in hits:
                for a in ast.walk(call):
                    if isinstance(a, ast.Attribute) and isinstance(a.value, ast.Name) and a.value.id == 'self' and a.attr in pnames:
                        used.add(a.attr)
            R.ob('C02.LAYER', c.qualname, 'parameters %s passed to the op' % sorted(pnames), used == pnames,
                 'registered parameters %s are not handed to the functional op (they would never receive a gradient)' % sorted(pnames - used), fw.loc)
