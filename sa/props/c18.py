"""C18 - dataset split, batching and one-hot encoding lose or misalign no sample (index bookkeeping of nn/utils/data.py).

Every routine is partially evaluated (sa/peval.py) over symbolic sequences: Seq = an index list known only as a tree of complementary slices of
range(n); Gather = [src[i] for i in seq]; Sub = src[slice].  What is compared are those structures and the size terms, not the spelling."""
import ast, itertools
from sa.core import norm, body_walk, dotted
from sa.cfg import CFG, facts_at
from sa.poly import P, floor, as_p
from sa.peval import PE, Opaque
from sa.report import Incomplete

DMOD = 'synapgrad.nn.utils.data'
A = P.atom


class Seq:
    """index list: the root is list(range(n)); a child is parent[k:] ('from') or parent[:k] ('upto')"""
    def __init__(self, parent, kind=None, k=None, n=None):
        self.parent, self.kind, self.k, self.n = parent, kind, k, n
        if parent is None:
            self.text, self.length = 'range(%s)' % as_p(n).canon(), as_p(n)
        else:
            kk = as_p(k)
            self.text = '%s[%s]' % (parent.text, ('%s:' if kind == 'from' else ':%s') % kk.canon())
            self.length = (parent.length - kk) if kind == 'from' else kk          # for 0 <= k <= len(parent)
        self.loc_text = self.text
        self.shuffled = 0

    def root(self):
        return self if self.parent is None else self.parent.root()

    def __eq__(self, o):
        return isinstance(o, Seq) and self.text == o.text

    def __hash__(self):
        return hash(self.text)

    def __repr__(self):
        return 'Seq(%s)' % self.text


class Gather:
    def __init__(self, src, seq):
        self.src, self.seq = src, seq
        self.text = self.loc_text = '[%s[i] for i in %s]' % (src, seq.text)
        self.length = seq.length

    def __eq__(self, o):
        return isinstance(o, Gather) and (self.src, self.seq) == (o.src, o.seq)

    def __hash__(self):
        return hash(self.text)

    def __repr__(self):
        return 'Gather(%s, %s)' % (self.src, self.seq.text)


class Sub:
    def __init__(self, src, idx):
        self.src, self.idx = src, idx
        self.text = self.loc_text = '%s[..]' % src

    def __repr__(self):
        return 'Sub(%s, %s)' % (self.src, _show(self.idx))


def _show(v):
    if isinstance(v, P):
        return v.canon()
    if isinstance(v, (list, tuple)):
        return '(' + ', '.join(_show(x) for x in v) + ')'
    return repr(v)


def _atomname(v):
    if isinstance(v, P) and len(v.t) == 1:
        (m, c), = v.t.items()
        if c == 1 and len(m) == 1 and m[0][1] == 1:
            return m[0][0]
    return None


def check(model, R, tier):
    R.rule('C18.PARTITION', 'the returned index parts are the leaves of a tree of complementary slices xs[k:] / xs[:k] of list(range(len(X))) (every index in exactly one part, order preserved); '
                            'test has floor(test_split*n) elements, validation floor(val_split*(n - test)); shuffle acts exactly once, on the whole list, before the first slice, only when requested', floor=6)
    R.rule('C18.PAIRING', 'X and y of every part are gathered through the same index list in the same order, and the returned tuples pair like with like in the order train, test, validation', floor=4)
    R.rule('C18.BATCH', 'len = len(y) // batch_size; X and y are sliced with equal bounds idx*b : idx*b + b; __next__ yields batch number step, advances step by one, stops at len; __iter__ restarts from 0', floor=5)
    R.rule('C18.OPTIONAL-CALL', 'the optional transform (constructor default None) is called only when present, with the sliced batch; without it the batch is returned unchanged', floor=2)
    R.rule('C18.ONEHOT', 'one_hot_encode puts the 1 at the index of the label among the sorted distinct labels; row length = number of distinct labels; rows in the order of y', floor=3)
    from sa import rules_hygiene as _H
    _H.check_memo(model, R, 'C18')
    _H.check_global_state(model, R, 'C18', modules=('synapgrad.nn.utils.data',), floor=2)
    try:
        check_split(model, R)
    except Incomplete as u:
        R.incomplete_at('C18.PARTITION', DMOD + '.split_dataset', str(u))
    try:
        check_loader(model, R)
    except Incomplete as u:
        R.incomplete_at('C18.BATCH', DMOD + '.DataLoader', str(u))
    try:
        check_onehot(model, R)
    except Incomplete as u:
        R.incomplete_at('C18.ONEHOT', DMOD + '.one_hot_encode', str(u))
    return dict(
        explanation='nn/utils/data.py is index bookkeeping never imported by the suite. Decided by partial evaluation over symbolic sequences: the returned parts tile range(len(X)) through complementary slice pairs with the '
                    'documented floor sizes (with and without a validation split), a single guarded shuffle before slicing, X / y gathered through the same index list and returned in the order train, test, validation; '
                    'DataLoader length, aligned batch slices, iterator protocol (yield batch step, advance by one, stop at len, restart from 0), presence test of the optional transform; the one-hot index rule on a '
                    'representative label alphabet of three symbolic classes.',
        assumptions=['Python slice semantics: xs[k:] and xs[:k] partition xs for any integer k', 'np.unique returns the sorted distinct labels', 'one_hot_encode is uniform in the number of classes (evaluated for three symbolic classes)'],
        technique='partial evaluation with path enumeration over symbolic index sequences (slice trees, gathers) + polynomial normal form of sizes and bounds')


# ------------------------------------------------------------------------------------------------ split_dataset
def _split_hooks(events):
    def call_hook(pe, name, e, args, kw, env, func, depth):
        n = name or ''
        if n in ('range', 'builtins.range') and len(args) == 1 and isinstance(args[0], P):
            return Seq(None, n=args[0])
        if n.endswith('random.shuffle') and args:
            events.append(('shuffle', args[0]))
            return None
        if n in ('numpy.random.permutation',) and args:
            events.append(('shuffle', args[0]))
            return args[0]
        return NotImplemented

    def sub_hook(pe, e, base, idx):
        if isinstance(base, Seq):
            if isinstance(idx, tuple) and idx and idx[0] == 'slice' and idx[3] is None:
                lo, hi = idx[1], idx[2]
                if any(b is not None and not isinstance(b, (P, int)) for b in (lo, hi)):
                    raise Incomplete('slice bound of an index list is not a term: %s' % norm(e))
                if lo is not None and hi is None:
                    r = Seq(base, 'from', lo)
                elif lo is None and hi is not None:
                    r = Seq(base, 'upto', hi)
                elif lo is None and hi is None:
                    return base
                else:
                    raise Incomplete('two-sided slice of an index list: %s' % norm(e))
                events.append(('slice', r))
                return r
            raise Incomplete('index list subscripted with %s' % norm(e))
        nm = _atomname(base)
        if nm is not None:
            return Sub(nm, idx)
        return NotImplemented

    def comp_hook(pe, e, it, env, func, depth):
        if isinstance(it, Seq) and len(e.generators) == 1 and not e.generators[0].ifs:
            env2 = dict(env)
            el = A('elem_i')
            pe.assign(e.generators[0].target, el, env2, func, depth, e)
            v = pe.expr(e.elt, env2, func, depth)
            if isinstance(v, Sub) and isinstance(v.idx, P) and v.idx == el:
                return Gather(v.src, it)
            raise Incomplete('comprehension over an index list does not gather src[i]: %s' % norm(e))
        return NotImplemented
    return call_hook, sub_hook, comp_hook


def check_split(model, R):
    sd = model.func(DMOD + '.split_dataset')
    Xn, yn = sd.pos_params[0], sd.pos_params[1]
    n = A('len(%s)' % Xn)
    ts, vs = A('test_split'), A('val_split')
    from sa import poly
    poly.NONINTEGRAL.update({'test_split', 'val_split'})        # ratios: floor(ratio * n) must not be simplified away
    k1 = floor(ts * n)
    for has_val, shuffle in itertools.product((True, False), repeat=2):
        events = []
        ch, sh, cm = _split_hooks(events)
        args = {'test_split': ts, 'val_split': vs if has_val else None, 'shuffle': A('shuffle')}
        pe = PE(model, preds={'shuffle': shuffle}, call_hook=ch, sub_hook=sh, comp_hook=cm, atoms_not_none=True)
        outs = pe.paths(sd, args)
        tag = 'val_split %s, shuffle=%s' % ('given' if has_val else 'None', shuffle)
        if len(outs) != 1 or outs[0].kind != 'return' or not isinstance(outs[0].value, (tuple, list)) or len(outs[0].value) != 3:
            R.ob('C18.PARTITION', sd.qualname, '[%s] one returning path with (train, test, validation)' % tag, False, 'paths: %s' % [(o.kind, o.conds[-2:]) for o in outs][:3], sd.loc)
            continue
        train, test, val = outs[0].value
        parts = [('train', train), ('test', test)] + ([('validation', val)] if has_val else [])
        # PAIRING
        okp = all(isinstance(p, (tuple, list)) and len(p) == 2 and isinstance(p[0], Gather) and isinstance(p[1], Gather) and p[0].src == Xn and p[1].src == yn and p[0].seq == p[1].seq for _, p in parts) \
            and (has_val or val is None)
        R.ob('C18.PAIRING', sd.qualname, '[%s] returns %s' % (tag, _show_parts(outs[0].value)), okp,
             'each returned part must be (X gathered through s, y gathered through the same s), validation None without a validation split', sd.loc)
        if not okp:
            continue
        seqs = {nm: p[0].seq for nm, p in parts}
        # PARTITION: leaves tile the root
        root = seqs['train'].root()
        leaves = list(seqs.values())
        ok_root = root.parent is None and all(s.root() == root for s in leaves) and root.length == n
        tiles = _tile(root, leaves)
        R.ob('C18.PARTITION', sd.qualname, '[%s] parts %s' % (tag, {k: v.text for k, v in seqs.items()}), ok_root and tiles and len({s.text for s in leaves}) == len(leaves),
             'the parts must be the leaves of complementary slice pairs xs[k:] / xs[:k] of list(range(len(X))): every sample index in exactly one part, original order preserved', sd.loc)
        # sizes
        want_test = k1
        ok_sz = seqs['test'].length == want_test
        why = 'test has %s elements, documented floor(test_split * n) = %s' % (seqs['test'].length.canon(), want_test.canon())
        if has_val:
            want_val = floor(vs * (n - k1))
            ok_sz = ok_sz and seqs['validation'].length == want_val
            why += '; validation has %s, documented floor(val_split * (n - test)) = %s' % (seqs['validation'].length.canon(), want_val.canon())
        R.ob('C18.PARTITION', sd.qualname, '[%s] sizes test=%s%s' % (tag, seqs['test'].length.canon(), ', validation=%s' % seqs['validation'].length.canon() if has_val else ''), ok_sz, why, sd.loc)
        # shuffle: once, on the root, before any slice, iff requested
        shs = [(i, ev) for i, ev in enumerate(events) if ev[0] == 'shuffle']
        first_slice = min([i for i, ev in enumerate(events) if ev[0] == 'slice'] or [len(events)])
        ok_sh = (len(shs) == 1 and isinstance(shs[0][1][1], Seq) and shs[0][1][1] == root and shs[0][0] < first_slice) if shuffle else not shs
        R.ob('C18.PARTITION', sd.qualname, '[%s] shuffles: %s' % (tag, [repr(ev[1]) for _, ev in shs]), ok_sh,
             'shuffling must permute the whole index list exactly once before slicing, and only when requested (the original order is preserved otherwise)', sd.loc)


def _show_parts(v):
    def one(p):
        if isinstance(p, (tuple, list)):
            return '(' + ', '.join(one(x) for x in p) + ')'
        return repr(p)
    return one(v)[:260]


def _tile(node, leaves):
    """the leaves below `node` are exactly a complementary-slice tiling of it"""
    if any(l == node for l in leaves):
        return True
    below = [l for l in leaves if _is_below(l, node)]
    kids = {}
    for l in below:
        c = l
        while c.parent is not None and not (c.parent == node):
            c = c.parent
        if c.parent is None:
            return False
        kids.setdefault(as_p(c.k).canon(), {})[c.kind] = c
    if len(kids) != 1:
        return False
    (k, pair), = kids.items()
    if set(pair) != {'from', 'upto'}:
        return False
    return _tile(pair['from'], leaves) and _tile(pair['upto'], leaves)


def _is_below(l, node):
    c = l
    while c is not None:
        if c == node:
            return True
        c = c.parent
    return False


# ------------------------------------------------------------------------------------------------ DataLoader
def check_loader(model, R):
    c = model.cls(DMOD + '.DataLoader')
    init = c.methods['__init__']
    outs = PE(model).paths(init, {p_: A(p_) for p_ in init.pos_params[1:]})
    st = {}
    for o in outs:
        for key, v, node in o.stores:
            st.setdefault(key, []).append(v)
    bs = [k for k, vs in st.items() if all(isinstance(v, P) and v == A('batch_size') for v in vs)]
    xs = [k for k, vs in st.items() if all(isinstance(v, P) and v == A('X') for v in vs)]
    ys = [k for k, vs in st.items() if all(isinstance(v, P) and v == A('y') for v in vs)]
    tr = [k for k, vs in st.items() if all(isinstance(v, P) and v == A('transform') for v in vs)]
    if len(bs) != 1 or len(xs) != 1 or len(ys) != 1 or len(tr) != 1 or len(outs) != 1:
        raise Incomplete('constructor does not store X, y, batch_size and transform once each: %s' % sorted(st))
    bs, xs, ys, tr = bs[0], xs[0], ys[0], tr[0]
    cur = [k for k, vs in st.items() if all(v == 0 and not isinstance(v, bool) for v in vs) and k not in (bs, xs, ys, tr)]
    B = A(bs)
    LEN = floor(A('len(%s)' % ys) / B)
    ln = c.methods['__len__']
    lo = PE(model).paths(ln, {})
    ok = len(lo) == 1 and lo[0].kind == 'return' and isinstance(lo[0].value, P) and lo[0].value == LEN
    R.ob('C18.BATCH', ln.qualname, 'returns %s' % [_show(o.value) for o in lo], ok, 'the number of batches is floor(len(y) / batch_size) (only full batches): %s' % LEN.canon(), ln.loc)
    # __getitem__
    gi = c.methods['__getitem__']
    idxp = gi.pos_params[1]
    I = A(idxp)

    def sub_hook(pe, e, base, idx):
        nm = _atomname(base)
        if nm in (xs, ys):
            return Sub(nm, idx)
        return NotImplemented
    want = ('slice', I * B, I * B + B, None)

    def slice_ok(ix, i=I):
        return isinstance(ix, tuple) and len(ix) == 4 and ix[0] == 'slice' and ix[3] is None and isinstance(ix[1], (P, int)) and isinstance(ix[2], (P, int)) and as_p(ix[1]) == i * B and as_p(ix[2]) == i * B + B
    o0 = PE(model, atoms={tr: None}, sub_hook=sub_hook, atoms_not_none=True).paths(gi, {})
    ok = len(o0) == 1 and o0[0].kind == 'return' and isinstance(o0[0].value, (tuple, list)) and len(o0[0].value) == 2 and all(isinstance(v, Sub) for v in o0[0].value) \
        and [v.src for v in o0[0].value] == [xs, ys] and all(slice_ok(v.idx) for v in o0[0].value) and not [c_ for c_ in o0[0].calls if c_[0] == tr]
    R.ob('C18.BATCH', gi.qualname, 'batch idx = %s' % [_show_parts(o.value) for o in o0], ok, 'X and y must be sliced with the same bounds idx*batch_size : idx*batch_size + batch_size and returned as (X_batch, y_batch)', gi.loc)
    R.ob('C18.OPTIONAL-CALL', gi.qualname, 'transform None: returns %s, calls %s' % ([_show_parts(o.value) for o in o0], [c_[0] for o in o0 for c_ in o.calls if c_[0] == tr]), ok,
         'without a transform the sliced batch must be returned unchanged and the absent transform must not be called (TypeError for the default constructor)', gi.loc)
    o1 = PE(model, sub_hook=sub_hook, atoms_not_none=True).paths(gi, {})
    calls = [c_ for o in o1 for c_ in o.calls if c_[0] == tr]
    ok = len(o1) == 1 and o1[0].kind == 'return' and len(calls) == 1 and len(calls[0][1]) == 3 and isinstance(calls[0][1][1], Sub) and isinstance(calls[0][1][2], Sub) \
        and (calls[0][1][1].src, calls[0][1][2].src) == (xs, ys) and slice_ok(calls[0][1][1].idx) and slice_ok(calls[0][1][2].idx) and _atomname(calls[0][1][0]) == gi.pos_params[0] \
        and isinstance(o1[0].value, Opaque)
    R.ob('C18.OPTIONAL-CALL', gi.qualname, 'transform present: %s' % [(c_[0], _show_parts(c_[1])) for c_ in calls], ok, 'a present transform receives (loader, X_batch, y_batch) of the same aligned slices and its result is returned', gi.loc)
    # __next__
    nx = c.methods['__next__']
    if len(cur) != 1:
        raise Incomplete('cursor attribute (initialised to 0) not identified: %s' % cur)
    STEP = A(cur[0])
    for more in (True, False):
        def compare_hook(pe, op, a, b, more=more):
            nm = type(op).__name__
            if isinstance(a, P) and isinstance(b, P) and a == STEP and b == LEN:
                return {'Lt': more, 'GtE': not more, 'LtE': None, 'Gt': None, 'Eq': not more if False else None, 'NotEq': None}.get(nm) if nm in ('Lt', 'GtE') else NotImplemented
            if isinstance(a, P) and isinstance(b, P) and a == LEN and b == STEP:
                return {'Gt': more, 'LtE': not more}.get(nm, NotImplemented)
            return NotImplemented
        on = PE(model, atoms={tr: None}, sub_hook=sub_hook, compare_hook=compare_hook, atoms_not_none=True).paths(nx, {})
        if more:
            ok = len(on) == 1 and on[0].kind == 'return' and isinstance(on[0].value, (tuple, list)) and len(on[0].value) == 2 and all(isinstance(v, Sub) and slice_ok(v.idx, STEP) for v in on[0].value) \
                and [v.src for v in on[0].value] == [xs, ys]
            sts = [(k, v) for o in on for k, v, _ in o.stores]
            ok = ok and len(sts) == 1 and sts[0][0] == cur[0] and isinstance(sts[0][1], P) and sts[0][1] == STEP + 1
            R.ob('C18.BATCH', nx.qualname, 'step < len: returns %s, stores %s' % ([_show_parts(o.value) for o in on], [(k, _show(v)) for k, v in sts]), ok,
                 '__next__ must return batch number `step` (before the increment) and advance the cursor by exactly one', nx.loc)
        else:
            ok = len(on) == 1 and on[0].kind == 'raise' and 'StopIteration' in str(on[0].value) and not on[0].stores
            R.ob('C18.BATCH', nx.qualname, 'step >= len: %s' % [(o.kind, o.value) for o in on], ok, 'after the last full batch __next__ must raise StopIteration without touching the cursor', nx.loc)
    it = c.methods['__iter__']
    gen = any(isinstance(n_, (ast.Yield, ast.YieldFrom)) for n_ in ast.walk(it.node))
    if gen:
        R.ob('C18.BATCH', it.qualname, 'generator __iter__', True, '', it.loc)
    else:
        oi = PE(model).paths(it, {})
        sts = [(k, v) for o in oi for k, v, _ in o.stores]
        ok = len(oi) == 1 and oi[0].kind == 'return' and _atomname(oi[0].value) == it.pos_params[0] and sts == [(cur[0], 0)]
        R.ob('C18.BATCH', it.qualname, 'stores %s, returns %s' % (sts, [_show(o.value) for o in oi]), ok, 'iteration must restart from the first batch and return the loader itself', it.loc)


# ------------------------------------------------------------------------------------------------ one_hot_encode
def check_onehot(model, R):
    f = model.func(DMOD + '.one_hot_encode')
    y = f.pos_params[0]
    classes = [A('c0'), A('c1'), A('c2')]
    results = []
    uniq_args = []
    for j, lab in enumerate(classes):
        def call_hook(pe, name, e, args, kw, env, func, depth):
            if name == 'numpy.unique' and args:
                uniq_args.append((args, kw))
                return list(classes)
            if isinstance(e.func, ast.Attribute) and e.func.attr == 'tolist':
                v = pe.expr(e.func.value, env, func, depth)
                if isinstance(v, list):
                    return v
            if name in ('sorted', 'builtins.sorted') and args and isinstance(args[0], list):
                return args[0]
            return NotImplemented

        def loop_hook(pe, s, env, lab=lab):
            itv = pe.expr(s.iter, env, f, 0)
            if _atomname(itv) == y and isinstance(s.target, ast.Name):
                env[s.target.id] = lab
                return True
            return False

        def comp_hook(pe, e, it, env, func, depth, lab=lab):
            if _atomname(it) == y and len(e.generators) == 1 and not e.generators[0].ifs:
                env2 = dict(env)
                pe.assign(e.generators[0].target, lab, env2, func, depth, e)
                return [pe.expr(e.elt, env2, func, depth)]
            return NotImplemented
        outs = PE(model, call_hook=call_hook, loop_hook=loop_hook, comp_hook=comp_hook).paths(f, {})
        results.append((j, outs))
    ok_u = bool(uniq_args) and all(len(a) == 1 and _atomname(a[0]) == y and not [k for k in kw if k != 'axis'] for a, kw in uniq_args)
    R.ob('C18.ONEHOT', f.qualname, 'label order = np.unique(%s)' % y, ok_u, 'the class order must be the sorted distinct labels of y', f.loc)
    bad = []
    for j, outs in results:
        want = [[1 if i == j else 0 for i in range(3)]]
        if not (len(outs) == 1 and outs[0].kind == 'return' and _rows(outs[0].value) == want):
            bad.append((j, [(o.kind, _show_parts(o.value)) for o in outs]))
    R.ob('C18.ONEHOT', f.qualname, 'a label equal to class j of 3 yields the unit row e_j (j = 0, 1, 2)', not bad, 'each label maps to the unit vector at its position among the sorted distinct labels, row length = number of classes: %s' % bad[:2], f.loc)
    R.ob('C18.ONEHOT', f.qualname, 'one row per label of y, in order', not bad and all(len(_rows(o.value) or []) == 1 for _, outs in results for o in outs), 'result is the array of rows in the order of y', f.loc)


def _rows(v):
    if isinstance(v, (list, tuple)) and all(isinstance(r, (list, tuple)) for r in v):
        out = []
        for r in v:
            row = []
            for x in r:
                if isinstance(x, P) and x.is_const():
                    x = x.const_value()
                row.append(int(x) if isinstance(x, (int,)) or (hasattr(x, 'denominator') and x.denominator == 1) else x)
            out.append(row)
        return out
    return None
