"""C18 - dataset split, batching and one-hot encoding lose or misalign no sample (index bookkeeping of nn/utils/data.py)."""
import ast
from sa.core import norm, body_walk, dotted, names_in
from sa.cfg import CFG, facts_at
from sa.poly import P, floor, TermBuilder, Unsupported
from sa.report import Incomplete

DMOD = 'synapgrad.nn.utils.data'


def _term(e, env=None, atoms=None):
    def atom_of(x):
        t = norm(x)
        if atoms and t in atoms:
            return P.atom(atoms[t])
        if isinstance(x, ast.Call) and dotted(x.func) == 'len':
            return P.atom('len(%s)' % norm(x.args[0]))
        if isinstance(x, (ast.Attribute, ast.Subscript)):
            return P.atom(t)
        return None
    return TermBuilder(env or {}, atom_of).build(e)


def check(model, R, tier):
    R.rule('C18.PARTITION', 'each split is a complementary pair of slices xs[k:] / xs[:k] of one index list with k = floor(fraction * len(xs)); shuffle acts once on that list before the first slice, under `if shuffle`', floor=5)
    R.rule('C18.PAIRING', 'X and y of every part are gathered through the same index list in the same order, and the returned tuples pair like with like', floor=4)
    R.rule('C18.BATCH', 'len = len(y) // batch_size; X and y are sliced with equal bounds idx*b : idx*b + b; iteration stops at len, advances by one, and restarts from 0', floor=5)
    R.rule('C18.OPTIONAL-CALL', 'an attribute whose constructor default is None is called only under a presence test; without it the batch is returned unchanged', floor=1)
    R.rule('C18.ONEHOT', 'one_hot_encode puts the 1 at the index of the label among the sorted distinct labels; row length = number of distinct labels', floor=3)
    sd = model.func(DMOD + '.split_dataset')
    gi = model.funcs.get(DMOD + '.split_dataset.get_split_indices')
    if gi is None:
        R.incomplete_at('C18.PARTITION', sd.qualname, 'index helper get_split_indices not found')
    else:
        check_partition(model, R, gi, sd)
    check_pairing(model, R, sd)
    check_loader(model, R)
    check_onehot(model, R)
    return dict(
        explanation='nn/utils/data.py is 95 lines of index bookkeeping never imported by the suite. Decides: complementary slice pairs with floor-rule sizes (every index in exactly one part, order preserved), '
                    'single guarded shuffle before slicing, X/y gathered through the same index list, aligned batch slices with polynomially equal bounds, iterator protocol of DataLoader, '
                    'None-guard of the optional transform, and the one-hot index rule.',
        assumptions=['Python slice semantics: xs[k:] and xs[:k] partition xs for any integer k', 'np.unique returns the sorted distinct labels'],
        technique='def-use pattern rules + polynomial normal form for slice bounds / sizes + control-dependence facts')


def _complementary(R, f, stmt, rule):
    """a, b = xs[k:], xs[:k]"""
    t, v = stmt.targets[0], stmt.value
    ok = isinstance(t, ast.Tuple) and isinstance(v, ast.Tuple) and len(t.elts) == 2 and len(v.elts) == 2 and all(isinstance(e, ast.Subscript) and isinstance(e.slice, ast.Slice) for e in v.elts)
    info = None
    if ok:
        a, b = v.elts
        same_list = norm(a.value) == norm(b.value)
        sa_, sb = a.slice, b.slice
        upper = lower = None
        for s in (sa_, sb):
            if s.step is not None:
                ok = False
        if ok:
            if sa_.lower is not None and sa_.upper is None and sb.lower is None and sb.upper is not None:
                lower, upper, rest_name, head_name = sa_.lower, sb.upper, norm(t.elts[0]), norm(t.elts[1])
            elif sb.lower is not None and sb.upper is None and sa_.lower is None and sa_.upper is not None:
                lower, upper, rest_name, head_name = sb.lower, sa_.upper, norm(t.elts[1]), norm(t.elts[0])
            else:
                ok = False
        if ok:
            ok = same_list and norm(lower) == norm(upper)
            info = dict(list=norm(a.value), k=lower, rest=rest_name, head=head_name)
    R.ob(rule, f.qualname, norm(stmt), ok, 'the two parts must be xs[k:] and xs[:k] of the SAME list with the SAME k (an index must land in exactly one part, order preserved)', '%s:%d' % (f.mod.relpath, stmt.lineno))
    return info if ok else None


def check_partition(model, R, gi, sd):
    cfg = CFG(gi.node)
    splits = [n for n in body_walk(gi.node) if isinstance(n, ast.Assign) and isinstance(n.targets[0], ast.Tuple) and isinstance(n.value, ast.Tuple)
              and all(isinstance(e, ast.Subscript) for e in n.value.elts)]
    splits.sort(key=lambda n: n.lineno)
    if len(splits) != 2:
        R.incomplete_at('C18.PARTITION', gi.qualname, 'expected two slice-pair statements, found %d' % len(splits))
        return
    infos = [_complementary(R, gi, s, 'C18.PARTITION') for s in splits]
    if not all(infos):
        return
    first, second = infos
    # second split acts on the rest of the first
    R.ob('C18.PARTITION', gi.qualname, 'second split acts on %s' % second['list'], second['list'] == first['rest'], 'validation must be taken from the non-test remainder', gi.loc)
    # k = floor(fraction * len(list))
    assigns = sorted([n for n in body_walk(gi.node) if isinstance(n, ast.Assign) and isinstance(n.targets[0], ast.Name)], key=lambda n: n.lineno)
    def k_def(name, before):
        ds = [n for n in assigns if n.targets[0].id == name and n.lineno < before]
        return ds[-1] if ds else None
    idx_def = [n for n in assigns if n.targets[0].id == first['list']]
    n_atom = None
    if idx_def and norm(idx_def[0].value).startswith('list(range('):
        n_atom = norm(idx_def[0].value.args[0].args[0])
    R.ob('C18.PARTITION', gi.qualname, '%s = %s' % (first['list'], norm(idx_def[0].value) if idx_def else None), n_atom is not None, 'the index list must enumerate all samples 0..n-1 in order', gi.loc)
    for info, st, frac_param, length in ((first, splits[0], gi.pos_params[1], n_atom), (second, splits[1], gi.pos_params[2], 'len(%s)' % first['rest'])):
        kd = k_def(norm(info['k']), st.lineno) if isinstance(info['k'], ast.Name) else None
        ok = False
        got = None
        if kd is not None and length is not None:
            try:
                got = _term(kd.value)
                want = floor(P.atom(frac_param) * P.atom(length))
                ok = got == want
            except Unsupported as u:
                got = u
        R.ob('C18.PARTITION', gi.qualname, '%s = %s' % (norm(info['k']), got.canon() if isinstance(got, P) else got), ok,
             'the split point must be floor(%s * %s)' % (frac_param, length), '%s:%d' % (gi.mod.relpath, st.lineno))
    # shuffle: once, on the index list, before the first slice, under `if shuffle`
    sh = [n for n in body_walk(gi.node) if isinstance(n, ast.Expr) and isinstance(n.value, ast.Call) and 'shuffle' in norm(n.value.func)]
    ok = len(sh) == 1
    if ok:
        fs = {(t, p) for t, p, _ in facts_at(cfg, sh[0])}
        ok = norm(sh[0].value.args[0]) == first['list'] and fs == {('shuffle', True)} and sh[0].lineno < splits[0].lineno and not cfg.in_loop(sh[0])
    R.ob('C18.PARTITION', gi.qualname, 'shuffle: %s' % [norm(s) for s in sh], ok, 'shuffling must permute the index list exactly once before slicing and only when requested (original order is preserved otherwise)', gi.loc)
    # returned order and call
    rets = [n for n in body_walk(gi.node) if isinstance(n, ast.Return)]
    R.ob('C18.PARTITION', gi.qualname, norm(rets[0]) if rets else 'no return', len(rets) == 1 and [norm(e) for e in rets[0].value.elts] == [second['rest'], first['head'], second['head']] if rets and isinstance(rets[0].value, ast.Tuple) else False,
         'the helper must return (train, test, validation) index lists', gi.loc)


def check_pairing(model, R, sd):
    calls = [n for n in body_walk(sd.node) if isinstance(n, ast.Assign) and isinstance(n.value, ast.Call) and dotted(n.value.func) == 'get_split_indices']
    names = None
    if len(calls) == 1 and isinstance(calls[0].targets[0], ast.Tuple):
        names = [norm(e) for e in calls[0].targets[0].elts]
        args = [norm(a) for a in calls[0].value.args]
        R.ob('C18.PAIRING', sd.qualname, norm(calls[0]), args == ['len(%s)' % sd.pos_params[0], sd.pos_params[2], sd.pos_params[3]], 'the index helper must be given len(X) and the two fractions', sd.loc)
    else:
        R.incomplete_at('C18.PAIRING', sd.qualname, 'call of get_split_indices not found')
        return
    X, y = sd.pos_params[0], sd.pos_params[1]
    gathered = {}
    for n in body_walk(sd.node):
        if isinstance(n, ast.Assign) and isinstance(n.targets[0], ast.Name) and isinstance(n.value, ast.Call) and n.value.args and isinstance(n.value.args[0], ast.ListComp):
            lc = n.value.args[0]
            g = lc.generators[0]
            if isinstance(lc.elt, ast.Subscript) and norm(lc.elt.slice) == norm(g.target) and not g.ifs:
                gathered[n.targets[0].id] = (norm(lc.elt.value), norm(g.iter), n)
    parts = {}
    for nm, (src, idx, n) in gathered.items():
        parts.setdefault(idx, {})[src] = nm
    for idx in names:
        p = parts.get(idx, {})
        ok = set(p) == {X, y}
        R.ob('C18.PAIRING', sd.qualname, 'part %s: %s' % (idx, p), ok, 'features and labels of a part must both be gathered through %s (same indices, same order)' % idx, sd.loc)
    tuples = {n.targets[0].id: [norm(e) for e in n.value.elts] for n in body_walk(sd.node) if isinstance(n, ast.Assign) and isinstance(n.targets[0], ast.Name) and isinstance(n.value, ast.Tuple)}
    okt = True
    for tname, elts in tuples.items():
        srcs = [gathered.get(e, (None, None))[:2] for e in elts]
        if len(srcs) != 2 or srcs[0][0] != X or srcs[1][0] != y or srcs[0][1] != srcs[1][1]:
            okt = False
    rets = [n for n in body_walk(sd.node) if isinstance(n, ast.Return)]
    order = []
    if rets and isinstance(rets[0].value, ast.Tuple):
        for e in rets[0].value.elts:
            el = tuples.get(norm(e))
            order.append(gathered.get(el[0], (None, None))[1] if el else None)
    R.ob('C18.PAIRING', sd.qualname, 'returned (train, test, validation) built from %s' % order, okt and order == names, 'each returned tuple must be (X_part, y_part) of the same part, in the order train, test, validation', sd.loc)


def check_loader(model, R):
    c = model.cls(DMOD + '.DataLoader')
    init = c.methods['__init__']
    bs = None
    for n in body_walk(init.node):
        if isinstance(n, ast.Assign) and norm(n.value) == 'batch_size' and isinstance(n.targets[0], ast.Attribute):
            bs = norm(n.targets[0])
    if bs is None:
        R.incomplete_at('C18.BATCH', c.qualname, 'batch size attribute not found')
        return
    ln = c.methods['__len__']
    rets = [n for n in body_walk(ln.node) if isinstance(n, ast.Return)]
    ok = False
    try:
        ok = len(rets) == 1 and _term(rets[0].value) == floor(P.atom('len(self.y)') / P.atom(bs))
    except Unsupported:
        pass
    R.ob('C18.BATCH', ln.qualname, norm(rets[0]) if rets else 'no return', ok, 'the number of batches is floor(n / batch_size) (only full batches)', ln.loc)
    gi = c.methods['__getitem__']
    idx = gi.pos_params[1]
    env = {}
    for n in sorted([x for x in body_walk(gi.node) if isinstance(x, ast.Assign) and isinstance(x.targets[0], ast.Name)], key=lambda x: x.lineno):
        try:
            env[n.targets[0].id] = _term(n.value, env)
        except Unsupported:
            pass
    slices = {}
    for n in ast.walk(gi.node):
        if isinstance(n, ast.Subscript) and norm(n.value) in ('self.X', 'self.y') and isinstance(n.slice, ast.Slice):
            try:
                slices[norm(n.value)] = (_term(n.slice.lower, env) if n.slice.lower is not None else P.const(0), _term(n.slice.upper, env) if n.slice.upper is not None else None, n.slice.step)
            except Unsupported as u:
                slices[norm(n.value)] = ('?', str(u), None)
    b, i = P.atom(bs), P.atom(idx)
    ok = set(slices) == {'self.X', 'self.y'} and slices['self.X'][:2] == slices['self.y'][:2] and slices['self.X'][0] == i * b and slices['self.X'][1] == i * b + b and slices['self.X'][2] is None and slices['self.y'][2] is None
    R.ob('C18.BATCH', gi.qualname, 'slices %s' % {k: (v[0].canon() if isinstance(v[0], P) else v[0], v[1].canon() if isinstance(v[1], P) else v[1]) for k, v in slices.items()}, ok,
         'X and y must be sliced with the same bounds idx*batch_size : idx*batch_size + batch_size', gi.loc)
    nx = c.methods['__next__']
    cfg = CFG(nx.node)
    conds = [n for n in body_walk(nx.node) if isinstance(n, ast.If)]
    ok = False
    if len(conds) == 1:
        t = norm(conds[0].test)
        ok = t in ('self.step < self.__len__()', 'self.step < len(self)')
        body = conds[0].body
        fetch = [n for n in body if isinstance(n, ast.Assign) and isinstance(n.value, ast.Call) and norm(n.value) in ('self.__getitem__(self.step)', 'self[self.step]')]
        inc = [n for n in body if isinstance(n, ast.AugAssign) and norm(n.target) == 'self.step' and isinstance(n.op, ast.Add) and norm(n.value) == '1']
        ret = [n for n in body if isinstance(n, ast.Return)]
        ok = ok and len(fetch) == 1 and len(inc) == 1 and len(ret) == 1 and fetch[0].lineno < inc[0].lineno < ret[0].lineno and norm(ret[0].value) == norm(fetch[0].targets[0])
        rest = [n for n in nx.node.body if n is not conds[0] and not (isinstance(n, ast.Expr) and isinstance(n.value, ast.Constant))]
        ok = ok and len(rest) == 1 and isinstance(rest[0], ast.Raise) and 'StopIteration' in norm(rest[0])
    R.ob('C18.BATCH', nx.qualname, 'while step < len: yield batch[step]; step += 1; else StopIteration', ok, '__next__ must yield batches 0..len-1 consecutively and then stop', nx.loc)
    it = c.methods['__iter__']
    st = [n for n in it.node.body if not (isinstance(n, ast.Expr) and isinstance(n.value, ast.Constant))]
    ok = len(st) == 2 and isinstance(st[0], ast.Assign) and norm(st[0].targets[0]) == 'self.step' and norm(st[0].value) == '0' and isinstance(st[1], ast.Return) and norm(st[1].value) == 'self'
    gen = any(isinstance(n, (ast.Yield, ast.YieldFrom)) for n in ast.walk(it.node))
    R.ob('C18.BATCH', it.qualname, ' ; '.join(norm(s) for s in st), ok or gen, 'iteration must restart from the first batch', it.loc)
    init_step = [n for n in body_walk(init.node) if isinstance(n, ast.Assign) and norm(n.targets[0]) == 'self.step' and norm(n.value) == '0']
    R.ob('C18.BATCH', init.qualname, 'self.step = 0', bool(init_step) or gen, 'cursor starts at 0', init.loc)
    # OPTIONAL-CALL
    defaults = init.defaults()
    optional = [p for p, d in defaults.items() if isinstance(d, ast.Constant) and d.value is None]
    attr_of = {}
    for n in body_walk(init.node):
        if isinstance(n, ast.Assign) and isinstance(n.targets[0], ast.Attribute) and isinstance(n.value, ast.Name) and n.value.id in optional:
            attr_of[norm(n.targets[0])] = n.value.id
    n_ob = 0
    for m in c.methods.values():
        mcfg = CFG(m.node)
        for call in [x for x in ast.walk(m.node) if isinstance(x, ast.Call) and norm(x.func) in attr_of]:
            st = next((s for s in mcfg.all_stmts() if not isinstance(s, (ast.If, ast.For, ast.While, ast.With, ast.Try)) and any(z is call for z in ast.walk(s))), None)
            a = norm(call.func)
            fs = {(t, p) for t, p, _ in facts_at(mcfg, st)} if st is not None else set()
            ok = (a + ' is None', False) in fs or (a + ' is not None', True) in fs or (a, True) in fs
            R.ob('C18.OPTIONAL-CALL', m.qualname, norm(call)[:80], ok, '%s defaults to None and is called without a presence test (TypeError for the default constructor)' % a, '%s:%d' % (m.mod.relpath, call.lineno))
            n_ob += 1
            # on the None path the batch is returned unchanged
            if ok:
                rets = [r for r in body_walk(m.node) if isinstance(r, ast.Return) and ((a + ' is None', True) in {(t, p) for t, p, _ in facts_at(mcfg, r)} or (a + ' is not None', False) in {(t, p) for t, p, _ in facts_at(mcfg, r)})]
                okr = len(rets) == 1 and isinstance(rets[0].value, ast.Tuple) and [norm(e) for e in rets[0].value.elts] == [norm(x) for x in call.args[1:]]
                R.ob('C18.OPTIONAL-CALL', m.qualname, 'None path returns %s' % (norm(rets[0].value) if rets else None), okr, 'without a transform the batch must be returned unchanged (X_batch, y_batch)', m.loc)
    if n_ob == 0:
        R.note('no call of an optional attribute found')


def check_onehot(model, R):
    f = model.func(DMOD + '.one_hot_encode')
    y = f.pos_params[0]
    uq = [n for n in body_walk(f.node) if isinstance(n, ast.Assign) and 'np.unique(%s)' % y in norm(n.value)]
    ok = len(uq) == 1 and norm(uq[0].value) in ('list(np.unique(%s))' % y, 'np.unique(%s).tolist()' % y)
    R.ob('C18.ONEHOT', f.qualname, norm(uq[0]) if uq else 'no unique', ok, 'the label order must be the sorted distinct labels of y', f.loc)
    if not ok:
        return
    u = norm(uq[0].targets[0])
    loops = [n for n in body_walk(f.node) if isinstance(n, ast.For) and norm(n.iter) == y]
    ok = len(loops) == 1
    if ok:
        lp = loops[0]
        lab = norm(lp.target)
        rows = [n for n in lp.body if isinstance(n, ast.Assign) and norm(n.value) in ('[0] * len(%s)' % u, '[0 for _ in %s]' % u)]
        sets = [n for n in lp.body if isinstance(n, ast.Assign) and isinstance(n.targets[0], ast.Subscript) and norm(n.targets[0].slice) == '%s.index(%s)' % (u, lab) and norm(n.value) == '1']
        app = [n for n in lp.body if isinstance(n, ast.Expr) and isinstance(n.value, ast.Call) and isinstance(n.value.func, ast.Attribute) and n.value.func.attr == 'append']
        ok = len(rows) == 1 and len(sets) == 1 and len(app) == 1 and norm(sets[0].targets[0].value) == norm(rows[0].targets[0]) == norm(app[0].value.args[0]) and len(lp.body) == 3
    R.ob('C18.ONEHOT', f.qualname, 'row = [0]*len(uniques); row[uniques.index(label)] = 1', ok, 'each label maps to the unit vector at its position among the sorted distinct labels', f.loc)
    rets = [n for n in body_walk(f.node) if isinstance(n, ast.Return)]
    R.ob('C18.ONEHOT', f.qualname, norm(rets[0]) if rets else 'no return', len(rets) == 1 and 'np.array(' in norm(rets[0].value), 'result is the array of rows in the order of y', f.loc)
