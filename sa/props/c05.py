"""C05 - forward results of tensor ops match the NumPy/PyTorch definition they mirror (argument plumbing, dim handling, validation, operators, iteration, constructors)."""
import ast, itertools
from sa import opcat, rules_engine as E
from sa.core import norm, body_walk, dotted, names_in, inline_expr
from sa.cfg import CFG, facts_at
from sa.report import Incomplete
from sa.rules_template import bind_call, kernel_func
from sa.rules_axis import check_axis
from sa.optree import tree, show

T = 'synapgrad.tensor.Tensor'
# frozen NumPy signatures (positional parameter names) for the calls the forward kernels delegate to
NP_SIG = {
    'numpy.sum': ('a', 'axis', 'dtype', 'out', 'keepdims'), 'numpy.mean': ('a', 'axis', 'dtype', 'out', 'keepdims'),
    'numpy.max': ('a', 'axis', 'out', 'keepdims'), 'numpy.min': ('a', 'axis', 'out', 'keepdims'),
    'numpy.amax': ('a', 'axis', 'out', 'keepdims'), 'numpy.amin': ('a', 'axis', 'out', 'keepdims'),
    'numpy.concatenate': ('arrays', 'axis'), 'numpy.stack': ('arrays', 'axis'), 'numpy.rollaxis': ('a', 'axis', 'start'),
    'numpy.squeeze': ('a', 'axis'), 'numpy.expand_dims': ('a', 'axis'), 'numpy.moveaxis': ('a', 'source', 'destination'),
    'numpy.swapaxes': ('a', 'axis1', 'axis2'), 'numpy.reshape': ('a', 'newshape'), 'numpy.exp': ('x',), 'numpy.log': ('x',), 'numpy.sqrt': ('x',),
    'numpy.lib.stride_tricks.sliding_window_view': ('x', 'window_shape', 'axis'), 'numpy.transpose': ('a', 'axes'), 'numpy.unbind_no': (),
}
# role of a kernel / wrapper parameter name
ROLE = {'axis': 'axis', 'dim': 'axis', 'dimension': 'axis', 'keepdims': 'keepdims', 'source': 'source', 'destination': 'destination', 'axis0': 'axis1', 'axis1': 'axis2',
        'dim0': 'axis1', 'dim1': 'axis2', 'shape': 'newshape', 'size': 'window_shape', 'step': 'step', 'n': 'n', 's': 's', 'start_dim': 'start_dim', 'end_dim': 'end_dim'}


def check(model, R, tier):
    ops, problems = opcat.catalogue(model)
    ops = [o for o in ops if o.func.mod.modname == 'synapgrad.functional']
    for q, why in problems:
        if q.startswith('synapgrad.functional.'):
            R.incomplete_at('C05.DELEGATE', q, why)
    check_delegate(model, R, ops)
    check_axis(model, R, 'C05', scope='forward')
    from sa import rules_hygiene as _H
    _H.check_dim_tests(model, R, 'C05', scope='forward')
    _H.check_squeeze_all(model, R, 'C05')
    check_reject(model, R, ops)
    check_operators(model, R)
    check_ctor_factory(model, R)
    from sa import rules_kernel as _K
    _K.check_numpy_contracts(model, R, 'C05')
    check_iter(model, R)
    check_squeeze(model, R)
    check_ctor(model, R)
    check_key(model, R)
    return dict(
        explanation='Values are NumPy\'s; what the repository adds - and can get wrong for untested arguments - is decided here: every kernel parameter reaches the NumPy parameter of the same role and every wrapper / '
                    'Tensor-method parameter reaches the kernel / functional parameter of the same role; dims are normalised before Python-level index arithmetic (typestate); validation guards raise and dominate the kernel call; '
                    'the operator and reflected-operator table as composition trees; independent iterators; constructor plumbing. NumPy / PyTorch value semantics are not decided.',
        assumptions=['NumPy signatures frozen in sa/props/c05.py', 'parameter-name roles (dim = axis, dim0/dim1 = axis1/axis2, ...)'],
        technique='call-binding against a frozen signature table + axis typestate + guard tables over raise sites and path conditions + composition-tree comparison + kernel evaluation on concrete shape cases')


# ------------------------------------------------------------------------------------------------ DELEGATE
def check_delegate(model, R, ops):
    R.rule('C05.DELEGATE', 'each forward-kernel parameter reaches the NumPy parameter of the same role; each wrapper / Tensor-method parameter is passed to the kernel / functional parameter of the same role', floor=60)
    seen = set()
    for op in ops:
        func = op.func
        for d, call in op.fwd_calls:
            kf = kernel_func(model, d)
            b, star = bind_call(call, kf)
            # wrapper -> kernel: a bare wrapper parameter must land in a kernel parameter of the same role
            for kp, arg in b.items():
                if isinstance(arg, ast.Name) and arg.id in func.params and arg.id in ROLE:
                    ok = ROLE.get(kp) == ROLE[arg.id]
                    R.ob('C05.DELEGATE', func.qualname, '%s(%s=%s)' % (kf.name, kp, arg.id), ok, 'wrapper parameter %s (role %s) is passed as kernel parameter %s (role %s)' % (arg.id, ROLE[arg.id], kp, ROLE.get(kp)),
                         '%s:%d' % (func.mod.relpath, call.lineno))
            if kf.qualname in seen:
                continue
            seen.add(kf.qualname)
            # kernel -> numpy
            kparams = [p for p in kf.pos_params[1:] if p in ROLE]
            npcalls = [c for c in ast.walk(kf.node) if isinstance(c, ast.Call) and (model.resolve(kf.mod, c.func) in NP_SIG or (isinstance(c.func, ast.Attribute) and c.func.attr == 'reshape'))]
            for p in kparams:
                used = [n for n in ast.walk(kf.node) if isinstance(n, ast.Name) and n.id == p and isinstance(n.ctx, ast.Load)]
                R.ob('C05.DELEGATE', kf.qualname, 'parameter %s is used' % p, bool(used), 'kernel ignores its %s argument' % p, kf.loc)
            for c in npcalls:
                sig = NP_SIG.get(model.resolve(kf.mod, c.func))
                if sig is None:
                    sig = ('a', 'newshape')
                    bound = {'a': c.func.value}
                    for i, a in enumerate(c.args):
                        bound[sig[1 + i] if 1 + i < len(sig) else 'extra%d' % i] = a
                else:
                    bound = {}
                    for i, a in enumerate(c.args):
                        if i < len(sig):
                            bound[sig[i]] = a
                    for k in c.keywords:
                        bound[k.arg] = k.value
                for npp, a in bound.items():
                    if isinstance(a, ast.Name) and a.id in kparams:
                        ok = ROLE[a.id] == npp or (ROLE[a.id] == 'axis' and npp == 'axis')
                        R.ob('C05.DELEGATE', kf.qualname, '%s(%s=%s)' % (norm(c.func), npp, a.id), ok, 'kernel parameter %s (role %s) is handed to NumPy as %s' % (a.id, ROLE[a.id], npp), '%s:%d' % (kf.mod.relpath, c.lineno))
    # Tensor methods forward all their parameters, in order, to the functional op
    tcls = model.cls(T)
    n = 0
    for name, m in tcls.methods.items():
        if name.startswith('_') or m.cls is not tcls or '.setter' in name:
            continue
        rets = [s_ for s_ in m.node.body if isinstance(s_, ast.Return)]
        if len(rets) != 1:
            continue
        c = inline_expr(m.node, rets[0].value)
        if not isinstance(c, ast.Call):
            continue
        d = model.resolve(m.mod, c.func)
        if not d or not d.startswith('synapgrad.functional.') or d not in model.funcs:
            continue
        callee = model.funcs[d]
        want = m.pos_params
        cp = callee.pos_params
        try:
            b, star = bind_call(c, callee)
        except Incomplete:
            b, star = {}, None
        # every callee parameter receives the method parameter at the same position (positional or by keyword)
        ok = star is None and len(cp) == len(want) and all(k in b and norm(b[k]) == w for w, k in zip(want, cp))
        roles_ok = all(ROLE.get(w, w) == ROLE.get(k, k) for w, k in zip(want[1:], cp[1:]))
        R.ob('C05.DELEGATE', m.qualname, '%s(%s) -> %s%s' % (name, ', '.join(want[1:]), callee.name, tuple(cp[1:])), ok and roles_ok and len(cp) == len(want),
             'a Tensor method must forward self and all of its parameters, in order, to the functional op parameters of the same role', m.loc)
        n += 1
    R.analysed['tensor_methods_checked'] = n


# ------------------------------------------------------------------------------------------------ REJECT
REQUIRED_GUARDS = {
    'synapgrad.functional.matmul': [({'x1.ndim < 2': ('A', True), 'x2.ndim < 2': ('B', True), 'x1.ndim >= 2': ('A', False), 'x2.ndim >= 2': ('B', False)}, lambda a: a['A'] or a['B'], 'operands of matmul need at least 2 dims')],
    'synapgrad.functional.unfold_dim': [
        ({'dimension >= x.ndim': ('H', True), 'dimension < -x.ndim': ('L', True)}, lambda a: a['H'] or a['L'], 'dimension must lie in [-ndim, ndim)'),
        ({'isinstance(size, int)': ('I', True), 'size <= 0': ('Z', True)}, lambda a: (not a['I']) or a['Z'], 'size must be a positive int'),
        ({'isinstance(step, int)': ('I', True), 'step <= 0': ('Z', True)}, lambda a: (not a['I']) or a['Z'], 'step must be a positive int')],
    'synapgrad.functional.flatten': [({'start > end': ('G', True), 'end < start': ('G', True)}, lambda a: a['G'], 'start_dim must not come after end_dim')],
    'synapgrad.functional.concat': [({'isinstance(dim, int)': ('I', True)}, lambda a: not a['I'], 'dim must be an int')],
    'synapgrad.functional.stack': [({'isinstance(dim, int)': ('I', True)}, lambda a: not a['I'], 'dim must be an int')],
    'synapgrad.functional.pow': [({'isinstance(n, (int, float))': ('I', True)}, lambda a: not a['I'], 'exponent must be int or float')],
    'synapgrad.cpu_ops.unfold_dim_forward': [({'size > a.shape[dimension]': ('G', True)}, lambda a: a['G'], 'window larger than the dimension')],
}


def check_reject(model, R, ops):
    R.rule('C05.REJECT', 'every validation guard of a wrapper ends in raise and dominates the forward-kernel call (no fallback value); the frozen set of required guards raises in exactly the forbidden case', floor=50)
    targets = [(op.func, [c for _, c in op.fwd_calls]) for op in ops]
    uf = model.func('synapgrad.cpu_ops.unfold_dim_forward')
    targets.append((uf, [c for c in ast.walk(uf.node) if isinstance(c, ast.Call) and 'sliding_window_view' in norm(c.func)]))
    for f, calls in targets:
        cfg = CFG(f.node)
        guards = [n for n in body_walk(f.node) if isinstance(n, ast.If) and n.body and isinstance(n.body[-1], ast.Raise) and not n.orelse]
        call_stmts = [E._stmt_in(f.node, c) for c in calls]
        for g in guards:
            if any(x in ('device',) for x in names_in(g.test)) or 'device' in norm(g.test):
                continue
            ok = all(cs is not None and cfg.dominates(g, cs) for cs in call_stmts)
            R.ob('C05.REJECT', f.qualname, 'guard `%s`' % norm(g.test)[:70], ok, 'an argument check placed after (or beside) the kernel call lets the invalid call produce a value first', '%s:%d' % (f.mod.relpath, g.lineno))
        # a guard must not return a fallback value
        for n in body_walk(f.node):
            if isinstance(n, ast.If) and not n.orelse and n.body and isinstance(n.body[-1], ast.Return) and all(cs is not None and cfg.dominates(n, cs) for cs in call_stmts):
                R.ob('C05.REJECT', f.qualname, 'early return `%s`' % norm(n.test)[:60], False, 'an argument combination the op cannot honour must raise, not be answered with a fallback value', '%s:%d' % (f.mod.relpath, n.lineno))
        for mapping, raises_when, what in REQUIRED_GUARDS.get(f.qualname, []):
            found, why = E.guard_table(f, cfg, mapping, raises_when, [cs for cs in call_stmts if cs is not None])
            R.ob('C05.REJECT', f.qualname, 'required: ' + what, found, 'the documented rejection `%s` is missing, weakened or no longer dominates the kernel call: %s' % (what, why), f.loc)


# ------------------------------------------------------------------------------------------------ OPERATORS
def V(n): return ('var', n)
def C(v): return ('const', float(v))
def MUL(*a): return ('mul',) + tuple(sorted(a, key=repr))
def ADD(*a): return ('add',) + tuple(sorted(a, key=repr))


def check_operators(model, R):
    R.rule('C05.OPERATORS', 'the operator / reflected-operator table as composition trees over the catalogue ops (operand order for the non-commutative ones, scalar wrapping before the op)', floor=14)
    tcls = model.cls(T)
    want = {
        '__add__': lambda s, o: ADD(V(s), V(o)), '__radd__': lambda s, o: ADD(V(s), V(o)),
        '__mul__': lambda s, o: MUL(V(s), V(o)), '__rmul__': lambda s, o: MUL(V(s), V(o)),
        '__sub__': lambda s, o: ADD(V(s), MUL(V(o), C(-1))), '__rsub__': lambda s, o: ADD(V(o), MUL(V(s), C(-1))),
        '__truediv__': lambda s, o: MUL(V(s), ('pow', V(o), C(-1))), '__rtruediv__': lambda s, o: MUL(V(o), ('pow', V(s), C(-1))),
        '__matmul__': lambda s, o: ('matmul', V(s), V(o)), '__rmatmul__': lambda s, o: ('matmul', V(o), V(s)),
        '__pow__': lambda s, o: ('pow', V(s), V(o)), '__rpow__': lambda s, o: ('rpow', V(s), V(o)),
        '__getitem__': lambda s, o: ('slice', V(s), V(o)),
    }
    for name, mk in want.items():
        m = tcls.methods.get(name)
        if m is None:
            R.ob('C05.OPERATORS', T + '.' + name, 'defined', False, 'operator %s is missing' % name, tcls.loc)
            continue
        s, o = m.pos_params[0], m.pos_params[1]
        env = {}
        for n in body_walk(m.node):
            if isinstance(n, ast.Assign) and isinstance(n.targets[0], ast.Name) and n.targets[0].id == o:
                # other = other if isinstance(other, Tensor) else Tensor(other, ...)   (scalar wrapping keeps the operand)
                t = tree(n.value, model, m.mod, cls=tcls)
                ok = t == V(o)
                R.ob('C05.OPERATORS', m.qualname, norm(n)[:80], ok, 'scalar wrapping must keep the operand (Tensor(%s))' % o, m.loc)
        rets = [n for n in body_walk(m.node) if isinstance(n, ast.Return)]
        if len(rets) != 1:
            R.incomplete_at('C05.OPERATORS', m.qualname, 'expected a single return')
            continue
        from sa.core import single_bindings
        got = tree(inline_expr(m.node, rets[0].value, bindings=single_bindings(m.node, phi=True)), model, m.mod, cls=tcls)
        R.ob('C05.OPERATORS', m.qualname, show(got), got == mk(s, o), 'documented: %s' % show(mk(s, o)), m.loc)
    m = tcls.methods.get('__neg__')
    rets = [n for n in m.node.body if isinstance(n, ast.Return)] if m else []
    got = tree(inline_expr(m.node, rets[0].value), model, m.mod, cls=tcls) if rets else None
    R.ob('C05.OPERATORS', T + '.__neg__', show(got) if got else 'missing', got == MUL(V('self'), C(-1)), '-x is x * -1', m.loc if m else '')


# ------------------------------------------------------------------------------------------------ ITER
def check_iter(model, R):
    R.rule('C05.ITER', 'iterating a Tensor returns a fresh, independent iterator (generator / iter(...)), not the tensor itself with a cursor stored on it', floor=2)
    tcls = model.cls(T)
    it = tcls.methods.get('__iter__')
    if it is None:
        R.ob('C05.ITER', T, '__iter__ (falls back to __getitem__/__len__ protocol)', '__getitem__' in tcls.methods and '__len__' in tcls.methods, 'no iteration protocol', tcls.loc)
        return
    gen = any(isinstance(n, (ast.Yield, ast.YieldFrom)) for n in ast.walk(it.node))
    rets = [n for n in body_walk(it.node) if isinstance(n, ast.Return) and n.value is not None]
    returns_self = any(norm(r.value) == 'self' for r in rets)
    fresh = gen or (rets and all(isinstance(r.value, ast.Call) and dotted(r.value.func) in ('iter', 'map', 'zip') or isinstance(r.value, ast.GeneratorExp) for r in rets))
    R.ob('C05.ITER', it.qualname, 'generator' if gen else 'returns %s' % [norm(r.value) for r in rets], bool(fresh) and not returns_self,
         '__iter__ returning self shares one cursor between nested / simultaneous iterations over the same tensor', it.loc)
    stores = [n for n in body_walk(it.node) if isinstance(n, (ast.Assign, ast.AugAssign)) and any(isinstance(t, ast.Attribute) and norm(t.value) == 'self' for t in ([n.target] if isinstance(n, ast.AugAssign) else n.targets))]
    R.ob('C05.ITER', it.qualname, 'no cursor stored on the tensor (%s)' % [norm(s) for s in stores], not stores, 'iteration state on the instance is shared by all iterations', it.loc)
    if gen:
        loops = [n for n in body_walk(it.node) if isinstance(n, ast.For)]
        LEN = ('len(self)', 'self.shape[0]', 'len(self.data)')
        ok = len(loops) == 1 and norm(inline_expr(it.node, loops[0].iter)) in tuple('range(%s)' % l for l in LEN) and any(isinstance(y, ast.Yield) and norm(y.value) == 'self[%s]' % norm(loops[0].target) for y in ast.walk(loops[0]))
        # counter idiom:  i = 0 ; while i < len(self): yield self[i] ; i += 1      (the bound may be hoisted into a local)
        wl = [n for n in body_walk(it.node) if isinstance(n, ast.While)]
        if not ok and len(wl) == 1 and not loops and isinstance(wl[0].test, ast.Compare) and len(wl[0].test.ops) == 1 and isinstance(wl[0].test.ops[0], ast.Lt) and isinstance(wl[0].test.left, ast.Name):
            w = wl[0]
            i = w.test.left.id
            bound = norm(inline_expr(it.node, w.test.comparators[0]))
            inits = [n for n in body_walk(it.node) if isinstance(n, ast.Assign) and norm(n.targets[0]) == i]
            incs = [n for n in w.body if isinstance(n, ast.AugAssign) and norm(n.target) == i and isinstance(n.op, ast.Add) and norm(n.value) == '1']
            ys = [n for n in w.body if isinstance(n, ast.Expr) and isinstance(n.value, ast.Yield) and norm(n.value.value) == 'self[%s]' % i]
            ok = bound in LEN and len(inits) == 1 and norm(inits[0].value) == '0' and len(incs) == 1 and len(ys) == 1 and len(w.body) == 2 and w.body.index(ys[0]) < w.body.index(incs[0]) and not w.orelse
        R.ob('C05.ITER', it.qualname, 'yields self[i] for i in range(len(self))', ok, 'iteration runs over the first dimension in order', it.loc)


# ------------------------------------------------------------------------------------------------ CTOR
def _unpack_idiom(fnode, var):
    """`if len(v) == 1 and isinstance(v[0], (list, tuple)): v = v[0]` (or returning v[0]) inside fnode"""
    for s in ast.walk(fnode):
        if isinstance(s, ast.If):
            t = norm(s.test)
            if 'isinstance(%s[0], (list, tuple))' % var in t and 'len(%s) == 1' % var in t:
                if any((isinstance(x, ast.Assign) and norm(x) == '%s = %s[0]' % (var, var)) or (isinstance(x, ast.Return) and norm(x.value) == '%s[0]' % var) for x in s.body):
                    return s
    return None


def _shape_normalised(model, f, cfg, ret):
    """the constructor evaluated on the four call forms f(2, 3) / f((2, 3)) / f([2, 3]) / f(5): the array factory must receive the shape (2, 3) resp. (5,)
    - whatever the spelling of the unpacking (inline test, helper, early returns)"""
    from sa.peval import PE
    from sa.report import Incomplete
    for given, want in (((2, 3), [2, 3]), (((2, 3),), [2, 3]), (([2, 3],), [2, 3]), ((5,), [5])):
        try:
            outs = PE(model, atoms_not_none=True).paths(f, {f.node.args.vararg.arg: tuple(given)}, max_paths=16)
        except Incomplete:
            return False
        if not outs or any(o.kind != 'return' for o in outs):
            return False
        for o in outs:
            got = None
            for t, a_, kw, node in o.calls:
                if not (t or '').startswith('numpy.'):
                    continue
                leaf = t.split('.')[-1]
                if leaf in ('empty', 'ones', 'zeros', 'full'):
                    got = kw.get('shape', a_[0] if a_ else None)
                elif leaf in ('rand', 'randn'):
                    got = list(a_)
                elif leaf in ('normal', 'uniform', 'randint', 'random', 'standard_normal'):
                    got = kw.get('size', a_[-1] if a_ else None)
                else:
                    continue
                break
            if isinstance(got, int) and not isinstance(got, bool):
                got = [got]
            if not isinstance(got, (list, tuple)) or list(got) != want:
                return False
    return True


FACTORY = {'empty': 'numpy.empty', 'ones': 'numpy.ones', 'zeros': 'numpy.zeros', 'ones_like': 'numpy.ones_like', 'zeros_like': 'numpy.zeros_like', 'arange': 'numpy.arange',
           'rand': 'numpy.random.rand', 'randn': 'numpy.random.randn', 'normal': 'numpy.random.normal', 'randint': 'numpy.random.randint', 'eye': 'numpy.eye', 'tensor': 'numpy.array'}


def check_ctor_factory(model, R):
    """every initializer is a thin wrapper of the NumPy factory of the same name: the data handed to Tensor(...) comes from exactly one call of that factory, which
    receives the user's positional arguments (the values / counts / bounds are NumPy's, not a re-implementation)"""
    R.rule('C05.CTOR-FACTORY', 'each initializer obtains its data from the NumPy factory of the same name, called once with the user\'s arguments in order '
                               '(arange / eye / rand .. are not re-implemented: counts, end points and distributions are NumPy\'s)', floor=len(FACTORY))
    from sa.peval import PE
    from sa.poly import P
    for n, want in FACTORY.items():
        f = model.func('synapgrad.tensor.' + n)
        va = f.node.args.vararg.arg if f.node.args.vararg else None
        args = {p_: P.atom(p_) for p_ in f.pos_params}
        if va:
            args[va] = (P.atom('v0'), P.atom('v1'))
        try:
            outs = PE(model, atoms_not_none=True).paths(f, args, max_paths=16)
        except Incomplete as u:
            R.incomplete_at('C05.CTOR-FACTORY', f.qualname, str(u))
            continue
        bad = []
        for o in outs:
            if o.kind != 'return':
                continue
            np_calls = [c for c in o.calls if (c[0] or '').startswith('numpy.') and not (c[0] or '').endswith(('.astype', '.dtype')) and c[0] not in ('numpy.float32', 'numpy.int32', 'numpy.float64')]
            hits = [c for c in np_calls if c[0] == want]
            if len(hits) != 1:
                bad.append('%d call(s) of %s (NumPy calls on the path: %s)' % (len(hits), want, sorted({c[0] for c in np_calls})))
                continue
            got = list(hits[0][1])
            own = [p_ for p_ in f.pos_params if p_ not in ('dtype', 'requires_grad', 'name', 'device')]
            user = [P.atom(p_) for p_ in own] + ([P.atom('v0'), P.atom('v1')] if va else [])
            flat = []
            for g in got:
                flat.extend(list(g) if isinstance(g, (list, tuple)) else [g])
            if n.endswith('_like'):
                okargs = len(got) >= 1
            elif n == 'tensor':
                okargs = bool(got) and isinstance(got[0], P) and got[0] == P.atom(f.pos_params[0])
            else:
                def flatp(vals):
                    out_ = []
                    for g_ in vals:
                        out_.extend([y for y in (list(g_) if isinstance(g_, (list, tuple)) else [g_]) if isinstance(y, P)])
                    return out_
                posv, kwv = flatp(got), {k_: flatp([v_]) for k_, v_ in hits[0][2].items()}
                allv = posv + [y for v_ in kwv.values() for y in v_]
                # positional arguments in the user's order; keyword arguments under a name that is also a parameter of the initializer carry that parameter
                okargs = posv[:len(user)] == user[:min(len(posv), len(user))] and all(u in allv for u in user) \
                    and all(v_ == [P.atom(k_)] for k_, v_ in kwv.items() if k_ in own and v_)
            if not okargs:
                bad.append('%s receives %s, expected the user arguments %s in order' % (want, [x.canon() if isinstance(x, P) else repr(x) for x in flat][:6], [u.canon() for u in user]))
        R.ob('C05.CTOR-FACTORY', f.qualname, '%s -> %s' % (n, want), not bad and any(o.kind == 'return' for o in outs), 'the initializer must delegate to NumPy: %s' % bad[:2], f.loc)


def check_ctor(model, R):
    names = ['tensor', 'empty', 'ones', 'ones_like', 'zeros', 'zeros_like', 'arange', 'rand', 'randn', 'normal', 'randint', 'eye']
    R.rule('C05.CTOR', 'every constructor forwards dtype / requires_grad / name / device to Tensor(...), normalises *shape before use, and *_like take shape and dtype from the source data', floor=len(names))
    for n in names:
        f = model.func('synapgrad.tensor.' + n)
        cfg = CFG(f.node)
        rets = [s_ for s_ in body_walk(f.node) if isinstance(s_, ast.Return)]
        rv = inline_expr(f.node, rets[0].value) if len(rets) == 1 else None
        ok = len(rets) == 1 and isinstance(rv, ast.Call) and model.resolve(f.mod, rv.func) == T
        why = 'must return Tensor(...)'
        if ok:
            c = rv
            kw = {k.arg: norm(k.value) for k in c.keywords}
            fwd = [p for p in ('dtype', 'requires_grad', 'name', 'device') if p in f.params]
            missing = [p for p in fwd if kw.get(p) != p]
            ok = not missing
            why = 'constructor argument(s) %s are not forwarded to Tensor(...)' % missing
            if ok and f.node.args.vararg is not None and f.node.args.vararg.arg == 'shape' and n != 'normal':   # normal(loc, scale, *shape) takes varargs only; a tuple is rejected by NumPy, which C05 allows
                ok = _shape_normalised(model, f, cfg, rets[0])
                why = 'a shape given as one tuple/list must be unpacked before use'
            if ok and n.endswith('_like'):
                inner = inline_expr(f.node, c.args[0])
                ok = isinstance(inner, ast.Call) and inner.args and norm(inner.args[0]) == '%s.data' % f.pos_params[0] and model.resolve(f.mod, inner.func) == 'numpy.' + n
                why = '%s must build its data from the source\'s .data (shape and dtype of the source)' % n
        R.ob('C05.CTOR', f.qualname, norm(rets[0].value)[:100] if rets else 'no return', ok, why, f.loc)


# ------------------------------------------------------------------------------------------------ KEY
def check_key(model, R):
    """the index expression given to x[key] reaches NumPy unchanged"""
    R.rule('C05.KEY', 'the index key of __getitem__ / slice reaches a[key] (and the backward scatter) as the very object the caller passed: it is never rebound or converted on the way', floor=3)
    chain = [('synapgrad.tensor.Tensor.__getitem__', 1), ('synapgrad.functional.slice', 1), ('synapgrad.cpu_ops.slice_forward', 1), ('synapgrad.cpu_ops.slice_backward', 2)]
    for q, idx in chain:
        f = model.func(q)
        p = f.pos_params[idx]
        rebinds = []
        for n in ast.walk(f.node):
            if isinstance(n, (ast.Assign, ast.AugAssign, ast.AnnAssign)):
                tg = n.targets if isinstance(n, ast.Assign) else [n.target]
                if any(isinstance(x, ast.Name) and x.id == p for t in tg for x in ast.walk(t)):
                    rebinds.append(norm(n))
            if isinstance(n, (ast.For, ast.comprehension)) and any(isinstance(x, ast.Name) and x.id == p for x in ast.walk(n.target)):
                rebinds.append('loop target %s' % p)
        uses = [n for n in ast.walk(f.node) if isinstance(n, ast.Name) and n.id == p and isinstance(n.ctx, ast.Load)]
        R.ob('C05.KEY', q, 'key parameter %s: %d use(s), rebinds %s' % (p, len(uses), rebinds), bool(uses) and not rebinds,
             'converting the key (e.g. list -> tuple) changes how NumPy interprets it (a list of ints is a gather along axis 0, a tuple is one index per dimension)', f.loc)


# ------------------------------------------------------------------------------------------------ SQUEEZE
def check_squeeze(model, R):
    """squeeze(dim) removes exactly the listed dims of size 1 (a listed dim of another size is kept, the others are still removed): the kernel is
    partially evaluated on concrete shapes / dim arguments and the axis set handed to np.squeeze is compared"""
    from sa.peval import PE, Opaque
    from sa.poly import P
    R.rule('C05.SQUEEZE', 'squeeze removes exactly the listed dims of size 1 (None: all of them); listed dims of another size are kept without blocking the others', floor=8)
    f = model.func('synapgrad.cpu_ops.squeeze_forward')
    cases = [((1, 3, 1), None), ((1, 3, 1), 0), ((1, 3, 1), 1), ((1, 3, 1), -1), ((1, 3, 1), (0, 1)), ((1, 3, 1), (0, 2)), ((1, 3, 1), (1,)), ((1, 3, 1), [0, -1]), ((1, 3, 1), (1, 2)), ((), None), ((2, 1), (-1, 0))]
    for shape, axis in cases:
        rec = []

        def hook(pe, name, e, args, kw, env, func, depth):
            if name == 'numpy.squeeze' and args:
                rec.append(kw.get('axis', args[1] if len(args) > 1 else None))
                return Opaque('squeezed')
            return NotImplemented
        try:
            outs = PE(model, atoms={'a.shape': tuple(shape), 'len(a.shape)': len(shape), 'a.ndim': len(shape)}, call_hook=hook, atoms_not_none=True).paths(f, {'a': P.atom('a'), 'axis': axis})
        except Incomplete as u:
            R.incomplete_at('C05.SQUEEZE', f.qualname, '%s, dim=%r: %s' % (shape, axis, u))
            continue
        rank = len(shape)
        dims = range(rank) if axis is None else ([axis] if isinstance(axis, int) else list(axis))
        want = {d % rank for d in dims if shape[d] == 1} if rank else set()
        ok = len(outs) == 1 and outs[0].kind == 'return'
        got = None
        if ok:
            if not rec:
                got = set()
                ok = _atomname(outs[0].value) == 'a'
            elif len(rec) == 1:
                ax = rec[0]
                if ax is None:
                    got = {d for d in range(rank) if shape[d] == 1}
                elif isinstance(ax, int) and not isinstance(ax, bool):
                    got = {ax % rank} if rank and shape[ax] == 1 else None       # np.squeeze raises on a non-unit axis
                elif isinstance(ax, (tuple, list)) and all(isinstance(x, int) for x in ax):
                    got = {x % rank for x in ax} if all(shape[x] == 1 for x in ax) else None
                ok = isinstance(outs[0].value, Opaque)
            ok = ok and got is not None and got == want
        R.ob('C05.SQUEEZE', f.qualname, 'shape %s, dim=%r -> removes %s' % (shape, axis, sorted(got) if got is not None else rec), ok, 'documented: removes dims %s' % sorted(want), f.loc)


def _atomname(v):
    from sa.poly import P
    if isinstance(v, P) and len(v.t) == 1:
        (m, c), = v.t.items()
        if c == 1 and len(m) == 1 and m[0][1] == 1:
            return m[0][0]
    return None
