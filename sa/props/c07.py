"""C07 - requires_grad propagation and grad-mode contexts behave like a stack."""
import ast, itertools
from sa import opcat, rules_template as T, rules_engine as E
from sa.core import norm, body_walk, dotted, names_in
from sa.cfg import CFG, facts_at
from sa.report import Incomplete

TMOD = 'synapgrad.tensor'
TENSOR = TMOD + '.Tensor'


def check(model, R, tier):
    ops, problems = opcat.catalogue(model)
    for q, why in problems:
        R.incomplete_at('C07.PROP', q, why)
    from sa.rules_flags import check_flags
    r1 = check_flags(model, R, 'C07', 'synapgrad.functional', rules=('PROP', 'ATTACH'), declare=False)
    r2 = check_flags(model, R, 'C07', 'synapgrad.nn.functional', rules=('PROP', 'ATTACH'), declare=False)
    R.rule('C07.PROP', 'over every valuation of the operands\' requires_grad flags (and presence of optional operands): result.requires_grad = OR of the children\'s flags, and every flagged operand is a child (partial evaluation)', floor=48)
    R.rule('C07.ATTACH', 'over every valuation: grad_fn (a BackwardFunction around a closure of the wrapper) is stored on the result iff the result requires grad (partial evaluation)', floor=48)
    check_ctor(model, R)
    check_flag_writers(model, R)
    check_mode_writers(model, R)
    check_setter_value(model, R)
    check_guards(model, R)
    check_ctx(model, R, 'no_grad', 'gradient__', False)
    check_ctx(model, R, 'retain_grads', 'retain_grads__', True)
    B = E.BackwardInfo(model)
    E.check_release_predicate(model, R, 'C07', B)
    E.check_buffer_discipline(model, R, 'C07', B)
    E.check_reset(model, R, 'C07')
    check_clients(model, R)
    return dict(
        explanation='Decides: for all 48 ops the result flag is the disjunction of requires_grad over exactly the children and grad_fn is attached only under `if out.requires_grad`; '
                    'Tensor.__init__ stores `requested AND global mode` after the floating-point check; the five flag guards dominate the effects they protect; no_grad / retain_grads '
                    'save the mode on entry in per-entry storage and restore it unconditionally on exit without swallowing exceptions; tensors that do not require grad never get a buffer; '
                    'the release predicate keeps leaves and the root. Not decided: user code that assigns the module globals directly.',
        assumptions=['the module-level flags are only changed through the context managers', 'Python `with` semantics: __exit__ runs on normal and exceptional exit'],
        technique='partial evaluation of all 48 op wrappers over every flag valuation + guard tables over raise sites and path conditions + typestate (save-on-enter / restore-on-exit) + truth tables')


# ------------------------------------------------------------------------------------------------ constructor flag
def check_flag_writers(model, R):
    """who may write Tensor._requires_grad: the constructor (after the floating-point check, AND-ed with the global mode) and the validating property setter"""
    R.rule('C07.FLAG-WRITERS', 'the stored flag _requires_grad is written only by Tensor.__init__ and by the requires_grad setter (both validate: floating point, leaf, global mode); '
                               'every other place sets the flag through the property', floor=2)
    allowed = {TENSOR + '.__init__', TENSOR + '.requires_grad.setter'}
    n = 0
    for fn in model.live_funcs():
        for st in body_walk(fn.node):
            tg = st.targets if isinstance(st, ast.Assign) else ([st.target] if isinstance(st, (ast.AugAssign, ast.AnnAssign)) else [])
            hit = [t for t in tg for x in ([t] if not isinstance(t, (ast.Tuple, ast.List)) else t.elts) if isinstance(x, ast.Attribute) and x.attr == '_requires_grad']
            call = isinstance(st, ast.Expr) and isinstance(st.value, ast.Call) and norm(st.value.func) in ('setattr', 'object.__setattr__') \
                and any(isinstance(a, ast.Constant) and a.value == '_requires_grad' for a in st.value.args)
            if hit or call:
                n += 1
                R.ob('C07.FLAG-WRITERS', fn.qualname, norm(st)[:80], fn.qualname in allowed,
                     'writing _requires_grad directly bypasses the checks of the setter / constructor (an integer tensor, or a tensor created under no_grad, could be made to require grad)',
                     '%s:%d' % (fn.mod.relpath, st.lineno))
    R.analysed['requires_grad_flag_writers'] = n


def check_mode_writers(model, R):
    """who may write the global mode flags: the context managers only (save-on-enter / restore-on-exit is decided by C07.CTX on exactly those methods)"""
    R.rule('C07.MODE-WRITERS', 'the module-level gradient / retain flags are assigned only by __enter__ / __exit__ of their context manager: any other writer (e.g. a function that '
                               'switches the mode off and then back ON instead of back to what it was) breaks the stack discipline', floor=4)
    tmod = model.modules['synapgrad.tensor']
    flags = {}
    for n in tmod.tree.body:
        if isinstance(n, ast.Assign) and len(n.targets) == 1 and isinstance(n.targets[0], ast.Name) and n.targets[0].id.endswith('__') and isinstance(n.value, ast.Constant) and isinstance(n.value.value, bool):
            flags[n.targets[0].id] = n
    allowed = ('__enter__', '__exit__')
    seen = 0
    for fn in model.live_funcs():
        decl = {x for n in ast.walk(fn.node) if isinstance(n, (ast.Global, ast.Nonlocal)) for x in n.names}
        for st in body_walk(fn.node):
            tg = st.targets if isinstance(st, ast.Assign) else ([st.target] if isinstance(st, (ast.AugAssign, ast.AnnAssign)) else [])
            for t in tg:
                for x in ([t] if not isinstance(t, (ast.Tuple, ast.List)) else t.elts):
                    hit = None
                    if isinstance(x, ast.Name) and x.id in flags and x.id in decl and fn.mod is tmod:
                        hit = x.id
                    if isinstance(x, ast.Attribute) and x.attr in flags and model.resolve(fn.mod, x.value) in ('synapgrad.tensor', 'synapgrad'):
                        hit = x.attr
                    if hit:
                        seen += 1
                        R.ob('C07.MODE-WRITERS', fn.qualname, norm(st)[:80], fn.name in allowed and fn.cls is not None,
                             'the flag %s may only be written by the __enter__ / __exit__ of its context manager' % hit, '%s:%d' % (fn.mod.relpath, st.lineno))
            if isinstance(st, ast.Expr) and isinstance(st.value, ast.Call) and norm(st.value.func) in ('setattr',) and any(isinstance(a, ast.Constant) and a.value in flags for a in st.value.args):
                seen += 1
                R.ob('C07.MODE-WRITERS', fn.qualname, norm(st)[:80], False, 'mode flag written through setattr', '%s:%d' % (fn.mod.relpath, st.lineno))
    R.analysed['mode_flag_writers'] = seen


def check_setter_value(model, R, P_='C07'):
    """the requires_grad setter stores exactly the value it was given on every path that does not raise (the global mode gates tensor CREATION, not the flag of a leaf)"""
    R.rule(P_ + '.SETTER-VALUE', 'the requires_grad setter stores the given value unchanged (in particular independent of the global gradient mode)', floor=1)
    from sa.peval import PE
    from sa.poly import P
    f = model.func(TENSOR + '.requires_grad.setter')
    vname = f.pos_params[1]
    bad = []
    try:
        for mode in (True, False):
            outs = PE(model, atoms={'gradient__': mode}, atoms_not_none=True).paths(f, {vname: P.atom(vname)}, max_paths=64)
            done = [o for o in outs if o.kind in ('fall', 'return')]
            if not done:
                bad.append('no completing path with the mode %s' % ('on' if mode else 'off'))
            for o in done:
                st = [v for k, v, s_ in o.stores if k.endswith('._requires_grad')]
                if len(st) != 1 or not (isinstance(st[0], P) and st[0] == P.atom(vname)):
                    bad.append('mode %s: stores %s under %s' % ('on' if mode else 'off', [getattr(x, 'canon', lambda: repr(x))() if isinstance(x, P) else repr(x) for x in st], o.conds[-2:]))
    except Incomplete as u:
        R.incomplete_at(P_ + '.SETTER-VALUE', f.qualname, str(u))
        return
    R.ob(P_ + '.SETTER-VALUE', f.qualname, 'self._requires_grad = %s on every completing path, gradient mode on and off' % vname, not bad,
         'the setter must store the value it was given: %s' % bad[:2], f.loc)


def check_ctor(model, R):
    R.rule('C07.CTOR', 'Tensor.__init__ stores requires_grad AND the global gradient mode, after rejecting non floating-point tensors', floor=2)
    f = model.func(TENSOR + '.__init__')
    cfg = CFG(f.node)
    stores = [n for n in body_walk(f.node) if isinstance(n, ast.Assign) and any(isinstance(t, ast.Attribute) and t.attr == '_requires_grad' for t in n.targets)]
    if len(stores) != 1:
        R.incomplete_at('C07.CTOR', f.qualname, 'expected one store to _requires_grad, found %d' % len(stores))
        return
    st = stores[0]
    v = st.value
    expr = v
    flagname = None
    if isinstance(v, ast.Name):
        flagname = v.id
        binds = [n for n in body_walk(f.node) if isinstance(n, ast.Assign) and any(isinstance(t, ast.Name) and t.id == v.id for t in n.targets)]
        if not binds and v.id in f.params:
            expr = v            # the requested flag itself is stored
        elif len(binds) != 1:
            R.incomplete_at('C07.CTOR', f.qualname, 'flag %s has %d bindings' % (v.id, len(binds)))
            return
        else:
            expr = binds[0].value
    bad = []
    try:
        for req, mode in itertools.product((False, True), repeat=2):
            def val(t):
                if t == 'requires_grad': return req
                if t == 'gradient__': return mode
                raise Incomplete('atom %s' % t)
            if E.eval_bool(expr, val) != (req and mode):
                bad.append((req, mode))
    except Incomplete as e:
        R.incomplete_at('C07.CTOR', f.qualname, 'flag expression %s: %s' % (norm(expr), e))
        return
    R.ob('C07.CTOR', f.qualname, '_requires_grad = %s' % norm(expr), not bad, 'the stored flag must be `requires_grad and gradient__` (differs for (requested, mode) in %s)' % bad, '%s:%d' % (f.mod.relpath, st.lineno))
    # floating point check dominates the store
    guards = [n for n in body_walk(f.node) if isinstance(n, ast.If) and 'is_floating_point' in norm(n.test)]
    ok = False
    if flagname:
        mapping = {flagname: ('F', True), 'self.is_floating_point': ('P', True), 'utils.is_floating_point(self.data)': ('P', True), 'utils.is_floating_point(data)': ('P', True),
                   'self.is_floating_point()': ('P', True)}
        ok, _why = E.guard_table(f, cfg, mapping, lambda a: a['F'] and not a['P'], [st])
    # the check must look at the data as STORED: every (re)binding of the data (dtype cast) precedes it
    rebinds = [n for n in body_walk(f.node) if isinstance(n, ast.Assign) and any(norm(t) in ('data', 'self.data') for t in n.targets)]
    for g in guards:
        for rb in rebinds:
            if cfg.path_exists(g, rb):
                ok = False
    R.ob('C07.CTOR', f.qualname, 'float check before the store', ok, 'a tensor that would require grad must be rejected unless its STORED data (after the dtype cast) is floating point, before the flag is stored', f.loc)


# ------------------------------------------------------------------------------------------------ guards
def _raise_guards(f):
    return [n for n in body_walk(f.node) if isinstance(n, ast.If) and n.body and isinstance(n.body[-1], ast.Raise) and not n.orelse]


def _guard_ok(R, model, qual, mapping, raises_when, effect_pred, what):
    f = model.func(qual)
    cfg = CFG(f.node)
    guards = _raise_guards(f)
    effects = [n for n in body_walk(f.node) if effect_pred(n)]
    if not effects:
        R.incomplete_at('C07.GUARDS', qual, 'protected effect not found')
        return
    found, why = E.guard_table(f, cfg, mapping, raises_when, effects)
    R.ob('C07.GUARDS', qual, what, found, 'the rejecting guard must raise exactly in the stated case and dominate the effect it protects: %s' % why, f.loc)


def check_guards(model, R):
    R.rule('C07.GUARDS', 'the flag guards (requires_grad setter: leaf + float; retain_grad; backward; numpy; grad_fn setter) raise in exactly the forbidden case and dominate the protected effect', floor=6)
    def store_to(attr):
        return lambda n: isinstance(n, ast.Assign) and any(isinstance(t, ast.Attribute) and t.attr == attr for t in n.targets)
    _guard_ok(R, model, TENSOR + '.requires_grad.setter', {'self.is_leaf': ('L', True)}, lambda a: not a['L'], store_to('_requires_grad'), 'only leaves may change requires_grad')
    _guard_ok(R, model, TENSOR + '.requires_grad.setter', {'value': ('V', True), 'self.is_floating_point': ('F', True)}, lambda a: a['V'] and not a['F'], store_to('_requires_grad'), 'only floating-point tensors may be set to require grad')
    _guard_ok(R, model, TENSOR + '.retain_grad', {'self.requires_grad': ('R', True), 'self._requires_grad': ('R', True)}, lambda a: not a['R'], store_to('_retain_grad'), 'retain_grad() refused on tensors that do not require grad')
    _guard_ok(R, model, TENSOR + '.numpy', {'self.requires_grad': ('R', True), 'self._requires_grad': ('R', True)}, lambda a: a['R'], lambda n: isinstance(n, ast.Return), 'numpy() refused on tensors that require grad')
    _guard_ok(R, model, TENSOR + '.grad_fn.setter', {'grad_fn is not None': ('G', True), 'grad_fn is None': ('G', False), 'self.requires_grad': ('R', True), 'self._requires_grad': ('R', True)},
              lambda a: a['G'] and not a['R'], store_to('_grad_fn'), 'a tensor that does not require grad cannot carry a backward function')
    _guard_ok(R, model, TENSOR + '.backward', {'self.requires_grad': ('R', True), 'self._requires_grad': ('R', True)}, lambda a: not a['R'],
              lambda n: isinstance(n, (ast.For, ast.While)), 'backward() refused on tensors that do not require grad')


# ------------------------------------------------------------------------------------------------ context managers
def check_ctx(model, R, clsname, flag, enter_value):
    rule = 'C07.CTX'
    R.rule(rule, 'no_grad / retain_grads read the previous mode in __enter__, keep it per entry (stack), restore it unconditionally in __exit__ and do not swallow exceptions', floor=10)
    c = model.classes.get('%s.%s' % (TMOD, clsname))
    if c is None:
        f = model.funcs.get('%s.%s' % (TMOD, clsname))
        if f is not None and any('contextmanager' in norm(d) for d in f.node.decorator_list):
            _check_generator_ctx(model, R, f, flag, enter_value)
            return
        raise Incomplete('context manager %s not found' % clsname)
    q = c.qualname
    enter, exit_, init = c.methods.get('__enter__'), c.methods.get('__exit__'), c.methods.get('__init__')
    if enter is None or exit_ is None:
        R.ob(rule, q, '__enter__/__exit__', False, 'not a context manager', c.loc)
        return
    # (1) __init__ does not read the mode
    reads_init = init is not None and any(isinstance(n, ast.Name) and n.id == flag and isinstance(n.ctx, ast.Load) for n in ast.walk(init.node))
    R.ob(rule, q, '__init__ does not read %s' % flag, not reads_init,
         'the mode must be saved when the block is ENTERED: a manager built in one mode and entered in another (or entered twice) restores the wrong mode', init.loc if init else c.loc)
    # (2) __enter__: save into per-entry storage before overwriting
    ecfg = CFG(enter.node)
    saves = []
    for n in body_walk(enter.node):
        if isinstance(n, ast.Expr) and isinstance(n.value, ast.Call) and isinstance(n.value.func, ast.Attribute) and n.value.func.attr == 'append' \
                and len(n.value.args) == 1 and norm(n.value.args[0]) == flag and norm(n.value.func.value).startswith('self.'):
            saves.append(('stack', norm(n.value.func.value), n))
        if isinstance(n, ast.Assign) and norm(n.value) == flag and isinstance(n.targets[0], ast.Attribute) and norm(n.targets[0].value) == 'self':
            saves.append(('attr', norm(n.targets[0]), n))
    sets = [n for n in body_walk(enter.node) if isinstance(n, ast.Assign) and any(isinstance(t, ast.Name) and t.id == flag for t in n.targets)]
    decl = any(isinstance(n, ast.Global) and flag in n.names for n in body_walk(enter.node))
    ok_set = len(sets) == 1 and decl and isinstance(sets[0].value, ast.Constant) and sets[0].value.value is enter_value and not ecfg.conditions(sets[0])
    R.ob(rule, q, '__enter__ sets %s = %s' % (flag, enter_value), ok_set, 'entering must switch the global mode (needs `global %s`) unconditionally' % flag, enter.loc)
    ok_save = len(saves) == 1 and bool(sets) and ecfg.dominates(saves[0][2], sets[0]) and saves[0][2] is not sets[0] and not ecfg.conditions(saves[0][2])
    R.ob(rule, q, '__enter__ saves the previous mode: %s' % ([norm(s[2]) for s in saves]), ok_save, 'the previous mode must be read in __enter__ before it is overwritten', enter.loc)
    if saves:
        R.ob(rule, q, 'per-entry storage (%s)' % saves[0][0], saves[0][0] == 'stack',
             'a single attribute is overwritten when the same manager object is entered twice (nested): the saved modes must form a stack', enter.loc)
    # (3) __exit__: unconditional restore from that storage, falsy return
    xcfg = CFG(exit_.node)
    restores = [n for n in body_walk(exit_.node) if isinstance(n, ast.Assign) and any(isinstance(t, ast.Name) and t.id == flag for t in n.targets)]
    declx = any(isinstance(n, ast.Global) and flag in n.names for n in body_walk(exit_.node))
    ok = len(restores) == 1 and declx and not xcfg.conditions(restores[0])
    if ok and saves:
        v = norm(restores[0].value)
        ok = v == '%s.pop()' % saves[0][1] if saves[0][0] == 'stack' else v == saves[0][1]
    R.ob(rule, q, '__exit__ restores: %s' % [norm(r) for r in restores], ok,
         '__exit__ must restore the saved mode on every path (also when exc_type is set), from the storage __enter__ wrote (needs `global %s`)' % flag, exit_.loc)
    rets = [n for n in body_walk(exit_.node) if isinstance(n, ast.Return) and n.value is not None and not (isinstance(n.value, ast.Constant) and not n.value.value)]
    R.ob(rule, q, '__exit__ returns a falsy value', not rets, 'a truthy return from __exit__ swallows the exception raised inside the block', exit_.loc)


def _check_generator_ctx(model, R, f, flag, enter_value):
    rule = 'C07.CTX'
    q = f.qualname
    ys = [n for n in ast.walk(f.node) if isinstance(n, ast.Yield)]
    tries = [n for n in body_walk(f.node) if isinstance(n, ast.Try) and n.finalbody]
    ok = len(ys) == 1 and len(tries) == 1 and any(x is ys[0] for s in tries[0].body for x in ast.walk(s))
    saves = [n for n in body_walk(f.node) if isinstance(n, ast.Assign) and norm(n.value) == flag and isinstance(n.targets[0], ast.Name)]
    ok = ok and len(saves) == 1
    if ok:
        restore = [n for s in tries[0].finalbody for n in ast.walk(s) if isinstance(n, ast.Assign) and any(isinstance(t, ast.Name) and t.id == flag for t in n.targets)]
        ok = len(restore) == 1 and norm(restore[0].value) == saves[0].targets[0].id
    R.ob(rule, q, 'generator context manager with try/finally restore', ok, 'save to a local before the yield, restore in finally', f.loc)
    for _ in range(5):
        R.ob(rule, q, 'generator form (local per entry)', ok, '', f.loc)


# ------------------------------------------------------------------------------------------------ clients
def check_clients(model, R):
    R.rule('C07.CLIENTS', 'every use of no_grad / retain_grads inside the package builds the manager in the `with` header', floor=5)
    for fn in model.live_funcs():
        if fn.parent is not None:
            continue
        for n in ast.walk(fn.node):
            if isinstance(n, (ast.With,)):
                for it in n.items:
                    e = it.context_expr
                    txt = norm(e)
                    if 'no_grad' in txt or 'retain_grads' in txt:
                        R.ob('C07.CLIENTS', fn.qualname, 'with ' + txt, isinstance(e, ast.Call) and it.optional_vars is None,
                             'the manager must be constructed in the with header', '%s:%d' % (fn.mod.relpath, n.lineno))
            if isinstance(n, ast.Assign) and isinstance(n.value, ast.Call) and (norm(n.value.func).endswith('no_grad') or norm(n.value.func).endswith('retain_grads')):
                R.ob('C07.CLIENTS', fn.qualname, norm(n), False, 'a manager object stored for later reuse', '%s:%d' % (fn.mod.relpath, n.lineno))
