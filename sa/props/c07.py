from sa import opcat, rules_template as T
def check(model, R, tier):
    ops, problems = opcat.catalogue(model)
    for q, why in problems:
        R.incomplete_at('C07.PROP', q, why)
    T.check_prop_attach(model, R, ops, 'C07')
    return dict(explanation='x', assumptions=[], technique='x')
