"""C14 - fused operations equal the compositions their documentation equates them with (by-construction part only)."""
import ast
from sa import opcat
from sa.core import norm, body_walk, dotted, names_in, inline_expr
from sa.optree import tree, show
from sa.props.c05 import check_operators, V, C, MUL, ADD
from sa.report import Incomplete
from sa.rules_template import bind_call
from sa.npcanon import npcall, npname

K = 'synapgrad.cpu_ops.'


def _ret(f):
    rets = [n for n in body_walk(f.node) if isinstance(n, ast.Return)]
    return rets[0].value if len(rets) == 1 else None


def check(model, R, tier):
    R.rule('C14.TREE', 'identities that hold by construction in this code base (one side is implemented through the other): the implementation\'s composition tree equals the documented one', floor=16)
    ops, _ = opcat.catalogue(model)
    byname = {o.qual: o for o in ops}
    from sa.rules_defn import check_fused
    check_fused(model, R, 'C14')
    from sa.rules_flags import check_presence
    check_presence(model, R, 'C14')
    # ---- operator identities (a - b, a / b, reflected forms, neg): shared with C05
    sub = _Sub(R)
    check_operators(model, sub)
    # ---- addmm = a + b @ c
    f = model.func(K + 'addmm_forward')
    t = tree(_ret(f), model, f.mod) if _ret(f) is not None else None
    R.ob('C14.TREE', f.qualname, show(t) if t else 'no single return', t == ADD(V('a'), ('matmul', V('b'), V('c'))), 'addmm = a + b @ c', f.loc)
    f = model.func(K + 'addmm_backward')
    calls = sorted([(dotted(c.func), c) for c in ast.walk(f.node) if isinstance(c, ast.Call) and dotted(c.func) in ('add_backward', 'matmul_backward')], key=lambda x: x[1].lineno)
    ok = [d for d, _ in calls] == ['add_backward', 'matmul_backward']
    if ok:
        ab, mb = calls[0][1], calls[1][1]
        abind, _ = bind_call(ab, model.func(K + 'add_backward'))
        mbind, _ = bind_call(mb, model.func(K + 'matmul_backward'))
        inl = lambda e: norm(inline_expr(f.node, e))
        ok = inl(abind['grad']) == 'grad' and inl(abind['a_shape']) == 'a.shape' and inl(mbind['a']) == 'b' and inl(mbind['b']) == 'c'
        # the matmul part differentiates with the gradient of the product, i.e. the second result of add_backward
        st = next((s_ for s_ in body_walk(f.node) if isinstance(s_, ast.Assign) and s_.value is ab), None)
        mm = norm(st.targets[0].elts[1]) if st is not None and isinstance(st.targets[0], ast.Tuple) and len(st.targets[0].elts) == 2 else None
        ok = ok and mm is not None and norm(mbind['grad']) == mm
    R.ob('C14.TREE', f.qualname, 'add_backward ; matmul_backward on the product gradient', ok, 'addmm backward = backward of (+) followed by backward of (@) on the gradient of the product', f.loc)
    # ---- linear = addmm | matmul on (bias, x, W.T), weight gradient transposed back
    op = byname.get('synapgrad.nn.functional.linear')
    ok = False
    if op is not None:
        from sa.rules_template import operand_of
        fw = {}
        for d, c in op.fwd_calls:
            fw[d.split('.')[-1]] = [operand_of(a, op, op.func) for a in c.args]
        ok = fw == {'addmm_forward': [('bias', 'data'), ('x', 'data'), ('weight', 'data.T')], 'matmul_forward': [('x', 'data'), ('weight', 'data.T')]}
        wacc = [a for a in op.accs if isinstance(a.target, ast.Name) and a.target.id == 'weight']
        ok = ok and len(wacc) == 1 and isinstance(wacc[0].rhs, ast.Attribute) and wacc[0].rhs.attr == 'T'
    R.ob('C14.TREE', 'synapgrad.nn.functional.linear', 'addmm(bias, x, W.T) | matmul(x, W.T); dW = (.)^T', ok, 'linear = x @ W.T + b through the addmm / matmul kernels', op.func.loc if op else '')
    # ---- flatten = reshape
    op = byname.get('synapgrad.functional.flatten')
    ok = op is not None and [d.split('.')[-1] for d, _ in op.fwd_calls] == ['reshape_forward'] and [d.split('.')[-1] for d, _, _ in op.bwd_calls] == ['reshape_backward']
    R.ob('C14.TREE', 'synapgrad.functional.flatten', 'reshape_forward / reshape_backward', ok, 'flatten = reshape with a computed shape', op.func.loc if op else '')
    # ---- stack_backward = unbind_forward
    f = model.func(K + 'stack_backward')
    r = _ret(f)
    r = inline_expr(f.node, r) if r is not None else None
    ok = isinstance(r, ast.Call) and dotted(r.func) == 'unbind_forward' and [norm(a) for a in r.args] == ['grad', 'axis']
    if not ok and r is not None:
        # the same expression as unbind_forward's body with (a, axis) := (grad, axis)  (helper inlined by hand)
        uf = model.func(K + 'unbind_forward')
        ur = _ret(uf)
        if ur is not None:
            import copy
            class Tr(ast.NodeTransformer):
                def visit_Name(self, n):
                    return ast.Name(id={'a': 'grad'}.get(n.id, n.id), ctx=n.ctx)
            ok = norm(Tr().visit(copy.deepcopy(inline_expr(uf.node, ur)))) == norm(r)
    R.ob('C14.TREE', f.qualname, norm(r) if r is not None else 'no return', ok, 'the backward of stack is unbind along the same axis', f.loc)
    # ---- pooling = window extraction followed by max / mean (and the reverse in backward)
    for n, red in (('max_pool1d', 'max'), ('max_pool2d', 'max'), ('avg_pool1d', 'mean'), ('avg_pool2d', 'mean')):
        f, b = model.func(K + n + '_forward'), model.func(K + n + '_backward')
        ew = [c for c in ast.walk(f.node) if isinstance(c, ast.Call) and dotted(c.func) == 'extract_windows']
        rd = [c for c in ast.walk(f.node) if isinstance(c, ast.Call) and npname(model, f, c) in ('max', 'mean', 'amax')]
        pw = [c for c in ast.walk(b.node) if isinstance(c, ast.Call) and dotted(c.func) == 'place_windows']
        rb = [c for c in ast.walk(b.node) if isinstance(c, ast.Call) and dotted(c.func) in ('max_backward', 'mean_backward')]
        ok = len(ew) == 1 and len(rd) == 1 and npname(model, f, rd[0]) == red and 'windows' in names_in(rd[0].args[0]) and len(pw) == 1 and len(rb) == 1 and dotted(rb[0].func) == red + '_backward' \
            and norm(pw[0].args[0]) == 'windows_grad'
        R.ob('C14.TREE', f.qualname, 'extract_windows ; %s  /  %s_backward ; place_windows' % (red, red), ok, 'pooling = window extraction followed by %s over the window axes' % red, f.loc)
    # ---- mean_backward = sum_backward followed by division by the count
    from sa import rules_kernel as RK
    sub2 = _Sub(R)
    sub2.ob_rule = 'C14.TREE'
    RK.check_mean_divisor(model, sub2, 'C14')      # mean = sum / count: the backward divides the broadcast gradient by the element count
    # ---- Neuron = Linear(in, 1)
    ni = model.func('synapgrad.nn.layers.Neuron.__init__')
    sup = [c for c in ast.walk(ni.node) if isinstance(c, ast.Call) and norm(c.func) == 'super().__init__']
    ok = len(sup) == 1 and [norm(a) for a in sup[0].args] == ['in_features', '1'] and {k.arg: norm(k.value) for k in sup[0].keywords} == {'bias': 'bias'} \
        and model.cls('synapgrad.nn.layers.Neuron').bases == ['synapgrad.nn.layers.Linear'] and 'forward' not in model.cls('synapgrad.nn.layers.Neuron').methods
    R.ob('C14.TREE', ni.qualname, norm(sup[0]) if sup else 'no super call', ok, 'Neuron = Linear with one output feature', ni.loc)
    # ---- Sequential = function composition
    from sa.props.c12 import check as _c12
    sf = model.func('synapgrad.nn.modules.Sequential.forward')
    loops = [n for n in sf.node.body if isinstance(n, ast.For)]
    ok = len(loops) == 1 and norm(loops[0].iter) == 'self.submodules()' and len(loops[0].body) == 1 and isinstance(loops[0].body[0], ast.Assign) \
        and norm(loops[0].body[0].value) == '%s(%s)' % (norm(loops[0].target), norm(loops[0].body[0].targets[0]))
    R.ob('C14.TREE', sf.qualname, 'out = module(out) over self.submodules()', ok, 'Sequential = left-to-right function composition', sf.loc)
    # ---- cross entropy = NLL of log_softmax
    f = model.func(K + 'cross_entropy_loss_forward')
    env = {n.targets[0].id: n.value for n in body_walk(f.node) if isinstance(n, ast.Assign) and isinstance(n.targets[0], ast.Name)}
    r = _ret(f)
    while isinstance(r, ast.Name) and r.id in env:
        r = env[r.id]
    ok = isinstance(r, ast.Call) and dotted(r.func) == 'nll_loss_forward' and len(r.args) == 2 and norm(r.args[1]) == 'y_true'
    if ok:
        a0 = r.args[0]
        while isinstance(a0, ast.Name) and a0.id in env:
            a0 = env[a0.id]
        ok = isinstance(a0, ast.Call) and dotted(a0.func) == 'log_softmax_forward' and [norm(x) for x in a0.args] == ['y_pred', '1']
    # (decided as a term identity by C14.EXPLOG: cross_entropy(a, y) = nll(log_softmax(a, 1), y), whatever the spelling - helper inlined, keyword axis ...)
    R.note('cross-entropy forward written as nll_loss_forward(log_softmax_forward(y_pred, 1), y_true): %s' % ok)
    # ---- BCE-with-logits = BCE(sigmoid(x), y): BCE is affine in the target, so the fused kernels must be affine in y_true as well
    R.rule('C14.AFFINE', 'BCE(p, y) is affine in the target y; the natively implemented BCE-with-logits kernels must therefore be affine in y_true (necessary for the identity on soft labels in [0, 1])', floor=2)
    from sa.absint import Interp, Tup
    from sa.domains import linear as L
    for q in (K + 'bce_with_logits_loss_forward', K + 'bce_with_logits_loss_backward'):
        f = model.func(q)
        dom = L.Linear({'y_true'}, affine=True)
        I = Interp(model, f, dom)
        try:
            ret = I.run()
            c = dom.c(ret)
            ev = [e for e in I.events if e['kind'] == 'nonlin']
            why = 'result is %s in y_true' % c
            if ev:
                why += '; first non-affine use of the target: %s at %s (%s)' % (norm(ev[0]['node'])[:70], ev[0]['loc'], ev[0]['why'])
            R.ob('C14.AFFINE', q, 'dependence on y_true: %s' % c, c == L.LIN, why, f.loc)
        except Incomplete as e:
            R.incomplete_at('C14.AFFINE', q, str(e))
    R.note('undecided (native implementations, no tree or term to compare): cross-entropy backward, the gradient side of BCE-with-logits / log_softmax, convolution = unfold @ weight (shares only extract_windows), '
           'stack = concat of unsqueezed (np.stack), unbind inverts stack (np.rollaxis), mean = sum / count in the forward (np.mean), movedim between adjacent dims = transpose (np.moveaxis / np.swapaxes)')
    return dict(
        explanation='Value equality of two independently written implementations is out of reach of this family. 16 of the listed identities hold BY CONSTRUCTION in this code base - one side is literally implemented through the other - '
                    'and for those the identity is decided as equality of composition trees (operator overloads, addmm, linear, flatten, stack backward, pooling, mean backward, Neuron, Sequential, cross-entropy forward). '
                    'Two natively re-implemented forward identities (log_softmax = log of softmax, BCE-with-logits = BCE of sigmoid) are decided as equality of terms under exp / log / axis-sum algebra: the kernels are partially evaluated '
                    'and the log-sum-exp / relu shifts must cancel exactly. The remaining native sides are listed as undecided and never alarm.',
        assumptions=['commutativity of add / mul for canonicalising trees', 'exp / log identities over the reals with positive log operands; the BCE guard epsilon -> 0 and its clamp region excluded'],
        technique='call-graph composition-tree extraction + tree equality + exp/log term normal form over partially evaluated kernels')


class _Sub:
    def __init__(self, R):
        self.R = R
    def rule(self, *a, **k): pass
    def ob(self, rule, where, construct, ok, detail='', loc=''):
        return self.R.ob('C14.TREE', where, construct, ok, detail, loc)
    def incomplete_at(self, rule, where, why):
        self.R.incomplete_at('C14.TREE', where, why)
    def note(self, t): pass
