"""C10 - results and gradients keep the operand's floating dtype and exact shape (structural part)."""
import ast
from sa import opcat, rules_engine as E, rules_template as T
from sa.core import norm, body_walk, dotted, names_in
from sa.cfg import CFG, facts_at
from sa.absint import Interp, Tup
from sa.domains.dtype import DType, OPER, WEAK, BOOL
from sa.report import Incomplete

TENSOR = 'synapgrad.tensor.Tensor'


def check(model, R, tier):
    ops, problems = opcat.catalogue(model)
    for q, why in problems:
        R.incomplete_at('C10.FWD', q, why)
    check_scalar(model, R)
    check_fwd(model, R, ops)
    check_buffer(model, R, ops)
    check_matches_shape(model, R)
    from sa import rules_hygiene as _H
    _H.check_global_state(model, R, 'C10', modules=('synapgrad.cpu_ops', 'synapgrad.conv_tools', 'synapgrad.functional', 'synapgrad.nn.functional'))
    return dict(
        explanation='Decides (a) the constructor path taken by NumPy scalar results (full reductions, element indexing, 0-d ufunc results) keeps the value\'s own dtype and uses the '
                    'module default only for dtype-less Python data; (b) by dtype-provenance abstract interpretation under NumPy-2 promotion, the value returned by every forward kernel '
                    'follows the operand dtype (no dtype-less np.zeros/ones/arange, NumPy-scalar or index array is promoted into it); (c) gradient buffers take dtype and shape from the tensor: '
                    'created as zeros_like(data), contributions only via in-place +=, the seed converted to the root dtype after a full shape check. float32-vs-float64 numerical agreement is not decided.',
        assumptions=['NumPy 2 (NEP 50) promotion rules as encoded in sa/domains/dtype.py', 'in-place += casts to the buffer dtype and refuses non-broadcastable shapes (NumPy semantics)'],
        technique='abstract interpretation (dtype provenance lattice) + def-use / guard-table checks on Tensor.__init__ and the seed path + evaluation of matches_shape on concrete shape pairs')


def check_scalar(model, R):
    R.rule('C10.SCALAR', 'in Tensor.__init__ a non-ndarray value that already carries a dtype (np.generic) keeps it; the module default is used only for dtype-less data', floor=1)
    f = model.func(TENSOR + '.__init__')
    cfg = CFG(f.node)
    convs = [c for c in ast.walk(f.node) if isinstance(c, ast.Call) and model.resolve(f.mod, c.func) in ('numpy.array', 'numpy.asarray', 'numpy.asanyarray')
             and c.args and isinstance(c.args[0], ast.Name) and c.args[0].id == f.pos_params[1]]
    if not convs:
        R.incomplete_at('C10.SCALAR', f.qualname, 'conversion of non-array data not found')
        return
    data = f.pos_params[1]
    for c in convs:
        st = E._stmt_in(f.node, c)
        dk = [k.value for k in c.keywords if k.arg == 'dtype'] + (c.args[1:2])
        if not dk:
            # dtype inferred by numpy: np.generic keeps its dtype; python floats become float64 -> fine for SCALAR
            R.ob('C10.SCALAR', f.qualname, norm(c), True, 'dtype inferred from the value', '%s:%d' % (f.mod.relpath, c.lineno))
            continue
        d = dk[0]
        uses_default = 'default_type__' in names_in(d)
        ok = not uses_default
        why = 'the conversion forces the module default float32 on every non-ndarray value, including NumPy scalars that carry a dtype (float64 sums / elements / 0-d results become float32)'
        if uses_default:
            generic_tests = ('isinstance(%s, np.generic)' % data, 'isinstance(%s, np.number)' % data, 'isinstance(%s, np.floating)' % data, "hasattr(%s, 'dtype')" % data)
            if isinstance(d, ast.IfExp) and norm(d.test) in generic_tests and norm(d.body) == '%s.dtype' % data and norm(d.orelse) == 'default_type__':
                ok = True
            elif isinstance(d, ast.IfExp) and isinstance(d.test, ast.UnaryOp) and norm(d.test.operand) in generic_tests and norm(d.orelse) == '%s.dtype' % data:
                ok = True
            elif isinstance(d, ast.Call) and dotted(d.func) == 'getattr' and len(d.args) == 3 and norm(d.args[0]) == data and norm(d.args[1]) == "'dtype'":
                ok = True
            else:
                fs = {(t, p) for t, p, _ in facts_at(cfg, st)}
                if any((g, False) in fs for g in generic_tests):
                    ok = True
        R.ob('C10.SCALAR', f.qualname, norm(c), ok, why, '%s:%d' % (f.mod.relpath, c.lineno))


def check_fwd(model, R, ops):
    kernels = sorted({d for o in ops for d, _ in o.fwd_calls} | {'synapgrad.conv_tools.extract_windows', 'synapgrad.conv_tools.place_windows',
                                                                 'synapgrad.conv_tools.im2col_v2', 'synapgrad.conv_tools.col2im_v2'})
    R.rule('C10.FWD', 'the value returned by every forward kernel follows the operand dtype: no strongly typed 64-bit value (dtype-less allocation, NumPy scalar, index array) is promoted into it', floor=len(kernels))
    for q in kernels:
        f = model.func(q)
        I = Interp(model, f, DType())
        try:
            r = I.run()
        except Incomplete as e:
            R.incomplete_at('C10.FWD', q, str(e))
            continue
        first = r.items[0] if isinstance(r, Tup) and r.kind == 'tuple' else r
        c = I.domain.c(first)
        ev = [e for e in I.events if e['kind'] == 'widen' and e['func'] == q]
        why = 'returned value has dtype provenance %s' % c
        if ev:
            why += '; first widening: %s at %s (%s)' % (norm(ev[0]['node'])[:70], ev[0]['loc'], ev[0]['why'])
        R.ob('C10.FWD', q, 'dtype provenance of the result', c == OPER, why, f.loc)


def check_buffer(model, R, ops):
    R.rule('C10.BUFFER', 'gradient buffers get dtype and shape from the tensor: zeros_like(self.data); contributions by in-place += only; the seed is dtype-converted after a shape check', floor=50)
    E.check_reset(model, _Sub(R, 'C10.BUFFER'), 'x')
    B = E.BackwardInfo(model)
    E.check_seed_owned(model, _Sub(R, 'C10.BUFFER'), 'x', B)
    for op in ops:
        for a in op.accs:
            ok = isinstance(a.stmt, ast.AugAssign) and isinstance(a.stmt.op, ast.Add) and isinstance(a.stmt.target, ast.Attribute)
            R.ob('C10.BUFFER', op.qual, norm(a.stmt), ok, 'a gradient contribution must be added in place (+=): assignment would replace the buffer by an array of the kernel result\'s dtype/shape',
                 '%s:%d' % (op.func.mod.relpath, a.stmt.lineno))
    # the grad setter checks the shape
    gs = model.func(TENSOR + '.grad.setter')
    cfg = CFG(gs.node)
    stores = [n for n in body_walk(gs.node) if isinstance(n, ast.Assign) and any(isinstance(t, ast.Attribute) and t.attr == '_grad' for t in n.targets)]
    gparam = gs.pos_params[1]
    mapping = {'self.matches_shape(%s)' % gparam: ('M', True), 'self.matches_shape(%s.data)' % gparam: ('M', True), '%s.shape == self.shape' % gparam: ('M', True), 'self.shape == %s.shape' % gparam: ('M', True)}
    ok, _why = E.guard_table(gs, cfg, mapping, lambda a: not a['M'], stores)
    ok = ok and bool(stores)
    R.ob('C10.BUFFER', gs.qualname, 'shape check before the store', ok, 'assigning .grad must reject a tensor of a different shape', gs.loc)


class _Sub:
    def __init__(self, R, rule):
        self.R, self.rulename = R, rule
    def rule(self, *a, **k): pass
    def ob(self, rule, where, construct, ok, detail='', loc=''):
        return self.R.ob(self.rulename, where, construct, ok, detail, loc)
    def incomplete_at(self, rule, where, why):
        self.R.incomplete_at(self.rulename, where, why)
    def note(self, t): pass


def check_matches_shape(model, R):
    """matches_shape evaluated (sa/peval.py) on concrete shape pairs: equal iff same rank and same extents"""
    from sa.peval import PE
    from sa.poly import P
    R.rule('C10.SEEDSHAPE', 'matches_shape compares the rank and every extent (evaluated on concrete shape pairs)', floor=1)
    f = model.func(TENSOR + '.matches_shape')
    other = f.pos_params[1]
    cases = [((2, 3), (2, 3), True), ((2, 3), (2, 4), False), ((2, 3), (3, 3), False), ((2, 3), (2, 3, 1), False), ((2, 3, 1), (2, 3), False), ((2, 3), (2,), False), ((), (), True), ((), (1,), False), ((4,), (4,), True), ((1, 3), (2, 3), False), ((2, 1), (2, 3), False), ((2, 3), (1, 3), False), ((2, 3), (2, 1), False), ((1,), (), False)]
    bad = []
    for sa_, sb, want in cases:
        try:
            outs = PE(model, atoms={'self.shape': tuple(sa_), '%s.shape' % other: tuple(sb), 'self.ndim': len(sa_), '%s.ndim' % other: len(sb), 'self.data.shape': tuple(sa_), '%s.data.shape' % other: tuple(sb)},
                      atoms_not_none=True).paths(f, {other: P.atom(other)})
        except Incomplete as u:
            R.incomplete_at('C10.SEEDSHAPE', f.qualname, '%s vs %s: %s' % (sa_, sb, u))
            return
        got = [o.value for o in outs if o.kind == 'return']
        if len(outs) != 1 or got != [want]:
            bad.append('%s vs %s -> %s' % (sa_, sb, [(o.kind, o.value) for o in outs]))
    R.ob('C10.SEEDSHAPE', f.qualname, 'rank test + per-extent comparison (%d shape pairs)' % len(cases), not bad, 'a seed gradient of another rank or extent must not match: %s' % bad[:3], f.loc)
