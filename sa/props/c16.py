"""C16 - im2col/col2im variants agree and col2im is the adjoint of im2col (shared-structure clauses only)."""
from sa import rules_conv as RC, rules_kernel as K

CT = 'synapgrad.conv_tools'


def check(model, R, tier):
    funcs = model.module_functions(CT)
    RC.check_outsize(model, R, 'C16')
    RC.check_geom(model, R, 'C16', funcs)
    RC.check_empty(model, R, 'C16')
    RC.check_strided(model, R, 'C16')
    # ACCUMULATE: each col2im-side routine adds window contributions into a zero-initialised buffer
    R.rule('C16.ACCUMULATE', 'every col2im-side routine accumulates window contributions into a zero-initialised buffer (np.add.at, +=, or read-add-store of the same slice)', floor=3)
    sub = _Sub(R, 'C16.ACCUMULATE')
    K.check_scatter(model, sub, [model.func(CT + '.' + n) for n in ('col2im', 'col2im_v2', 'place_windows')], 'x', floor=3)
    RC.check_pairs(model, R, 'C16')
    return dict(
        explanation='Equality of three implementations over all geometries is a value property and is not decided. Decided are the shared-structure clauses whose violation makes the variants disagree or breaks adjointness for some '
                    'geometry: one output-size formula at all 8 sites (polynomial normal form), geometry normalisation before subscripting, empty-output rejection, accumulating scatters into zero buffers, gather/scatter through the same '
                    'index helper with the same roles, polynomially equal window slices in the loop variants, identical geometry roles and inverse reshapes in the strided-view variants, pad/crop pairing and the 2-D layout permutation and its inverse.',
        assumptions=['a gather and an accumulating scatter over the same index set are adjoint', 'agreement of the strided-view extractor with the index/loop variants is not decided'],
        technique='polynomial normal form of size / slice arithmetic + dominance (geometry typestate) + call-binding role comparison + linearity-domain scatter rule')


class _Sub:
    def __init__(self, R, rule):
        self.R, self.rulename = R, rule
    def rule(self, *a, **k): pass
    def ob(self, rule, where, construct, ok, detail='', loc=''):
        return self.R.ob(self.rulename, where, construct, ok, detail, loc)
    def incomplete_at(self, rule, where, why):
        self.R.incomplete_at(self.rulename, where, why)
    def note(self, t): pass
