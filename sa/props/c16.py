"""C16 - im2col/col2im variants agree and col2im is the adjoint of im2col (shared-structure clauses only)."""
from sa import rules_convpe as CP, rules_kernel as K

CT = 'synapgrad.conv_tools'


def check(model, R, tier):
    frames = CP.check_conv_pe(model, R, 'C16')
    # ACCUMULATE: each col2im-side routine adds window contributions into a zero-initialised buffer
    R.rule('C16.ACCUMULATE', 'every col2im-side routine accumulates window contributions into a zero-initialised buffer (np.add.at, +=, or read-add-store of the same slice)', floor=3)
    sub = _Sub(R, 'C16.ACCUMULATE')
    K.check_scatter(model, sub, [model.func(CT + '.' + n) for n in ('col2im', 'col2im_v2', 'place_windows')], 'x', floor=3)
    CP.check_pairs_pe(model, R, 'C16', frames)
    K.check_index_width(model, R, 'C16')
    CP.check_index_axes(model, R, 'C16')
    return dict(
        explanation='Numerical equality of the three implementations is a value property and is not decided. Decided, by partially evaluating every conv_tools routine on a symbolic (N, C, H, W) input with symbolic geometry '
                    '(shape-level interpretation of NumPy, terms compared in polynomial normal form): one output-size formula at every window count (helpers, loop bounds, ndindex extents, strided-view shape, buffers); int geometry is '
                    'broadcast before per-axis use; empty outputs raise before any array is built; the strided view addresses padded[n, c, i*s + m*d, ..] (shape and byte strides of a C-contiguous array, made contiguous when needed); '
                    'loop variants read / accumulate exactly the rows i*s .. step d and column i*lW + j; place_windows adds window (i, j) at the rows the view read; gather and np.add.at scatter use the same index triple from the same '
                    'helper with equal geometry on buffers of the padded shape; pad (p, p) with pad_value / crop p : size + p pairing; the 2-D layout permutation and its inverse in all variants; accumulating scatters into zero buffers.',
        assumptions=['a gather and an accumulating scatter over the same index set are adjoint', 'the index arithmetic inside get_im2col_indices (which windows k, i, j enumerate) is shared by gather and scatter and is not itself compared with the loop variants',
                     'NumPy shape semantics of pad / reshape / transpose / moveaxis / as_strided as modelled in sa/rules_convpe.py'],
        technique='partial evaluation with path enumeration over a shape-level abstract domain (symbolic arrays + polynomial normal form) + linearity-domain scatter rule')


class _Sub:
    def __init__(self, R, rule):
        self.R, self.rulename = R, rule
    def rule(self, *a, **k): pass
    def ob(self, rule, where, construct, ok, detail='', loc=''):
        return self.R.ob(self.rulename, where, construct, ok, detail, loc)
    def incomplete_at(self, rule, where, why):
        self.R.incomplete_at(self.rulename, where, why)
    def note(self, t): pass
