"""C06 - forward results of nn ops / layers / losses match their documented definitions (structural part)."""
import ast
from sa import rules_conv as RC
from sa.core import norm, body_walk, dotted, names_in
from sa.cfg import CFG, facts_at
from sa.poly import P, sqrt, TermBuilder, Unsupported
from sa.report import Incomplete
from sa.rules_template import bind_call
from sa.npcanon import npcall, npname

CT = 'synapgrad.conv_tools'
LY = 'synapgrad.nn.layers'


def check(model, R, tier):
    from sa import rules_convpe as CP
    CP.check_conv_pe(model, R, 'C06')
    funcs = [f for f in model.module_functions('synapgrad.cpu_ops') if 'pool' in f.name or 'conv' in f.name]
    RC.check_geom(model, R, 'C06', funcs, declare=False)
    check_layer_geom(model, R)
    check_pad(model, R)
    from sa import rules_kernel as _K
    _K.check_layer_stateless(model, R, 'C06')
    from sa.rules_defn import check_defn
    check_defn(model, R, 'C06', ['sigmoid', 'softmax', 'log_softmax', 'relu', 'selu', 'mse_loss', 'bce_loss', 'bce_with_logits_loss', 'cross_entropy_loss'],
               'per-element values of activations and losses')
    check_bn_form(model, R)
    check_enum(model, R)
    check_enum_ctor(model, R)
    check_plumb(model, R)
    from sa.props.c12 import check_super_roles
    check_super_roles(model, R, 'C06')
    return dict(
        explanation='Decides: int-or-tuple geometry arguments are normalised before any per-axis use (kernels, conv_tools, layer constructors); the output-size formula floor((L+2p-d(k-1)-1)/s)+1 at all 8 sites; empty outputs raise; '
                    'max pooling pads with -inf and average pooling / convolution with 0, reducers over the full window; batch norm divides by sqrt(var + eps) with the biased variance; string-mode dispatch of Loss.reduction is exhaustive; '
                    'each layer hands its stored geometry / parameters to the functional op in the same role. Window layout, loss formulas and value equality with PyTorch are not decided.',
        assumptions=['the PyTorch output-length formula quoted in the property statement'],
        technique='partial evaluation over a shape-level domain (conv_tools, Loss dispatch) + dominance-based geometry typestate + call-binding role comparison')


def check_layer_geom(model, R):
    """layer constructors evaluated (sa/peval.py) with int-form geometry arguments: the value stored on the layer is the per-axis pair; a missing stride
    becomes the kernel size.  The functional pools are evaluated with stride=None: the forward kernel receives the kernel size as stride."""
    from sa.peval import PE, Vec
    R.rule('C06.LAYER-GEOM', 'layer constructors store int-or-tuple geometry expanded per axis (np.broadcast_to) - evaluated with the int form; a missing stride defaults to the kernel size', floor=8)
    A = P.atom

    def pairs(name):
        return [A('%s[0]' % name), A('%s[1]' % name)]

    def is_pair(v, name):
        return isinstance(v, (Vec, tuple, list)) and len(v) == 2 and all(isinstance(x, P) for x in v) and list(v) == pairs(name)

    def hook(pe, name, e, args, kw, env, func, depth):
        n = name or ''
        if n.startswith('synapgrad.tensor.') or n.startswith('synapgrad.empty') or n.endswith('.Parameter') or n.startswith('synapgrad.nn.init.'):
            return Opaque_(n)
        return NotImplemented
    from sa.peval import Opaque as Opaque_
    for cls in ('Unfold', 'Fold', 'MaxPool2d', 'AvgPool2d', 'Conv2d'):
        f = model.func('%s.%s.__init__' % (LY, cls))
        geo = [p for p in f.params if p in RC.GEOM]
        dflt_none = [p for p in geo if isinstance(f.defaults().get(p), ast.Constant) and f.defaults()[p].value is None]
        for none_case in ([False, True] if dflt_none else [False]):
            args = {p: A(p) for p in f.pos_params[1:]}
            if none_case:
                for p in dflt_none:
                    args[p] = None
            try:
                outs = PE(model, call_hook=hook, atoms_not_none=True, default_pred=lambda t: False if ("== 'valid'" in t or "== 'same'" in t or 'isinstance(padding, str)' in t) else None, max_depth=3).paths(f, args, max_paths=64)
            except Incomplete as u:
                R.incomplete_at('C06.LAYER-GEOM', f.qualname, str(u))
                continue
            outs = [o for o in outs if o.kind != 'raise']
            for p in geo:
                bad = []
                for o in outs:
                    st = [v for k, v, s_ in o.stores if k == 'self.' + p]
                    want_name = 'kernel_size' if (none_case and p in dflt_none) else p
                    if not st or not is_pair(st[-1], want_name):
                        bad.append(repr(st[-1]) if st else 'not stored')
                R.ob('C06.LAYER-GEOM', f.qualname, '%s%s: self.%s = per-axis pair' % (p, ' (=None)' if none_case and p in dflt_none else '', p), bool(outs) and not bad,
                     'the documented int form must be expanded per axis before it is stored%s: got %s' % (' (a missing stride is the kernel size)' if none_case else '', bad[:2]), f.loc)
    for cls in ('MaxPool1d', 'AvgPool1d'):
        f = model.func('%s.%s.__init__' % (LY, cls))
        args = {p: A(p) for p in f.pos_params[1:]}
        args['stride'] = None
        try:
            outs = [o for o in PE(model, call_hook=hook, atoms_not_none=True, max_depth=3).paths(f, args) if o.kind != 'raise']
        except Incomplete as u:
            R.incomplete_at('C06.LAYER-GEOM', f.qualname, str(u))
            continue
        ok = bool(outs) and all([v for k, v, s_ in o.stores if k == 'self.stride'][-1:] == [A('kernel_size')] for o in outs)
        R.ob('C06.LAYER-GEOM', f.qualname, 'stride=None defaults to kernel_size', ok, 'default stride of pooling is the kernel size', f.loc)
    from sa.rules_flags import _hooks, TObj, TENSOR
    ch, ah, sh, dp, cmh = _hooks(model, model.func(TENSOR + '.__init__'))
    for fn in ('max_pool1d', 'max_pool2d', 'avg_pool1d', 'avg_pool2d'):
        f = model.func('synapgrad.nn.functional.' + fn)
        args = {p: A(p) for p in f.pos_params[1:]}
        args[f.pos_params[0]] = TObj(f.pos_params[0])
        args['stride'] = None
        try:
            outs = PE(model, preds={'%s.requires_grad' % f.pos_params[0]: False}, call_hook=ch, attr_hook=ah, sub_hook=sh, default_pred=dp, comp_hook=cmh, atoms_not_none=True, max_depth=2).paths(f, args, max_paths=64)
        except Incomplete as u:
            R.incomplete_at('C06.LAYER-GEOM', f.qualname, str(u))
            continue
        kc = [r for o in outs if o.kind == 'return' for r, conds in o.user.get('kcalls', []) if r.kname.endswith(fn + '_forward')]
        kf = model.funcs.get('synapgrad.cpu_ops.%s_forward' % fn)
        ok = bool(kc) and kf is not None
        if ok:
            for r in kc:
                b = dict(zip(kf.pos_params, r.args))
                b.update(r.kw)
                ok = ok and isinstance(b.get('stride'), P) and b['stride'] == b.get('kernel_size')
        R.ob('C06.LAYER-GEOM', f.qualname, 'stride=None: the forward kernel receives stride = kernel_size', bool(ok), 'default stride of pooling is the kernel size', f.loc)


def _top(f, st):
    for s in f.node.body:
        if any(x is st for x in ast.walk(s)):
            return s
    return st


def check_pad(model, R):
    R.rule('C06.PAD', 'max pooling extracts windows with pad_value=-inf (padding never wins); average pooling and convolution pad with 0 (padded zeros are counted); the reducer runs over the whole window', floor=6)  # (conv part; pooling part declared in rules_convpe)
    from sa.rules_convpe import check_pool_forward
    check_pool_forward(model, R, 'C06')
    # convolution: the kernel evaluated on symbolic shapes; the kernel extent comes from weight.shape, the other geometry from the arguments in their own roles
    from sa.rules_convpe import Frame, geom_args, counts, G, NCHW, NCW, eq, show
    from sa.poly import P
    from sa.report import Incomplete
    A = P.atom
    k, d, s_, p_ = G()
    for q, dims in (('conv1d_forward', 1), ('conv2d_forward', 2)):
        f = model.func('synapgrad.cpu_ops.' + q)
        shape = NCHW if dims == 2 else NCW
        kx = [A('kx0'), A('kx1')][:dims]                      # the kernel extent is read from weight.shape
        ke = [A('kx0[0]')] if dims == 1 else kx             # ... an int extent is expanded by np.broadcast_to inside extract_windows
        wshape = (A('Co'), shape[1]) + tuple(kx)
        from sa.rules_convpe import ref
        L = shape[2:]
        cn = tuple(ref(L[i], p_[i], d[i], ke[i], s_[i]) for i in range(dims))
        try:
            fr = Frame(model, 'synapgrad.cpu_ops.' + q, dict(geom_args(f), a=A('a'), weight=A('weight'), bias=None),
                       atoms={'a.shape': shape, 'len(a.shape)': len(shape), 'weight.shape': wshape, 'len(weight.shape)': len(wshape)})
            rs = fr.returns()
        except Incomplete as u:
            R.incomplete_at('C06.PAD', f.qualname, str(u))
            continue
        why = []
        if not rs:
            why.append('no returning path')
        for o in rs:
            pads = o.user.get('pads', [])
            if len(pads) != 1:
                why.append('pads: %d' % len(pads))
                continue
            cv = pads[0][3].get('constant_values')
            okp = (isinstance(cv, (int, float)) and not isinstance(cv, bool) and cv == 0) or (isinstance(cv, P) and cv.is_const() and cv.const_value() == 0)
            if not okp:
                why.append('pad value %s' % show(cv))
            st = o.user.get('strided', [])
            if len(st) != 1 or not isinstance(st[0][2], (tuple, list)) or not eq(tuple(st[0][2]), tuple(cn) + tuple(shape[:2]) + tuple(ke)):
                why.append('window view shape %s' % (show(st[0][2])[:160] if st else None))
            if [r for r in o.user.get('reducers', []) if r[0] == q]:
                why.append('a reduction over the windows in a convolution')
        R.ob('C06.PAD', f.qualname, 'pad 0; windows of extent weight.shape[2:] taken with (stride, padding, dilation) in their own roles', not why,
             'documented convolution windows: %s' % why[:3], f.loc)


def check_bn_form(model, R):
    R.rule('C06.BN', 'batch norm normalises as (x - mean) / sqrt(var + eps) with eps inside the square root and the biased batch variance', floor=2)
    f = model.func('synapgrad.cpu_ops.batch_norm_forward')
    env = {}
    atom_of = lambda e: P.atom(norm(e.func.value) if isinstance(e, ast.Call) else norm(e)) if isinstance(e, (ast.Attribute, ast.Subscript)) else None

    def on_call(tb, name, e):
        if name == 'numpy.reshape':
            return tb.build(e.args[0])
        if isinstance(e.func, ast.Attribute) and e.func.attr == 'reshape':
            return tb.build(e.func.value)
        return None
    got = {}
    for n in sorted([x for x in body_walk(f.node) if isinstance(x, ast.Assign) and isinstance(x.targets[0], ast.Name)], key=lambda x: x.lineno):
        nm = n.targets[0].id
        if nm in ('std', 'x_norm') and nm not in got:
            try:
                got[nm] = TermBuilder(env, atom_of, model, f.mod, on_call).build(n.value)
                env[nm] = got[nm]
            except Unsupported as u:
                got[nm] = None
    x, mean, var, eps = P.atom('x'), P.atom('mean'), P.atom('var'), P.atom('eps')
    R.ob('C06.BN', f.qualname, 'std = %s' % (got.get('std').canon() if got.get('std') is not None else None), got.get('std') is not None and got['std'] == sqrt(var + eps), 'std = sqrt(var + eps) (eps inside the root)', f.loc)
    R.ob('C06.BN', f.qualname, 'x_norm = %s' % (got.get('x_norm').canon()[:100] if got.get('x_norm') is not None else None), got.get('x_norm') is not None and got['x_norm'] == (x - mean) / sqrt(var + eps), 'x_norm = (x - mean) / sqrt(var + eps)', f.loc)


def check_enum(model, R):
    """Loss.__call__ evaluated for every value of self.reduction: the returned term is compared"""
    from sa.peval import PE
    R.rule('C06.ENUM', 'Loss.reduction dispatch is exhaustive: sum -> loss.sum(), mean -> loss.mean(), none/None -> unreduced, anything else raises (evaluated per value of self.reduction)', floor=5)
    f = model.func('synapgrad.nn.losses.Loss.__call__')
    LOSS = P.atom('LOSS')
    want = {'sum': P.atom('sum(LOSS)'), 'mean': P.atom('mean(LOSS)'), 'none': LOSS, None: LOSS, 'avg': 'raise', 'Sum': 'raise', '': 'raise'}
    for red, w in want.items():
        rec = []

        def hook(pe, name, e, args, kw, env, func, depth):
            if isinstance(e.func, ast.Attribute) and isinstance(e.func.value, ast.Call) and norm(e.func.value.func) == 'super' and e.func.attr in ('__call__', 'forward'):
                rec.append([a for a in args])
                return LOSS
            red_name = e.func.attr if isinstance(e.func, ast.Attribute) else (name or '').split('.')[-1]
            if red_name in ('sum', 'mean'):
                recv = pe.expr(e.func.value, env, func, depth) if isinstance(e.func, ast.Attribute) and not (name or '').startswith('synapgrad') else (args[0] if args else None)
                if isinstance(recv, P) and recv == LOSS and not kw and len(args) <= (0 if isinstance(e.func, ast.Attribute) and not (name or '').startswith('synapgrad') else 1):
                    return P.atom('%s(LOSS)' % red_name)
            return NotImplemented
        try:
            outs = PE(model, atoms={'self.reduction': red}, call_hook=hook).paths(f, {})
        except Incomplete as u:
            R.incomplete_at('C06.ENUM', f.qualname, 'reduction=%r: %s' % (red, u))
            continue
        got = [(o.kind, o.value) for o in outs]
        if w == 'raise':
            ok = bool(outs) and all(o.kind == 'raise' for o in outs)
        else:
            ok = len(outs) == 1 and outs[0].kind == 'return' and isinstance(outs[0].value, P) and outs[0].value == w
        ok = ok and len(rec) == 1 and [a.canon() if isinstance(a, P) else a for a in rec[0]] == f.pos_params[1:3]
        R.ob('C06.ENUM', f.qualname, 'reduction=%r -> %s' % (red, [(k, v.canon() if isinstance(v, P) else v) for k, v in got]), ok,
             'documented: %s of the per-element loss forward(y_pred, y_true)' % ('a ValueError (a misspelt reduction must not silently return the unreduced loss)' if w == 'raise' else w.canon()), f.loc)


def check_enum_ctor(model, R):
    """the constructor of Loss (and of every subclass that takes `reduction`) stores the documented reduction values as given, so that the dispatch of __call__
    (C06.ENUM, evaluated per value of self.reduction) is the dispatch on the user's argument"""
    from sa.rules_modtree import World, MObj
    from sa.report import Incomplete
    R.rule('C06.ENUM', 'the Loss constructors store reduction in {None, \'none\', \'mean\', \'sum\'} unchanged [constructor evaluated per value]', floor=1)
    base = model.cls('synapgrad.nn.losses.Loss')
    for cls in [base] + [c for c in model.subclasses('synapgrad.nn.losses.Loss')]:
        ini = model.find_method(cls, '__init__')
        if ini is None or 'reduction' not in ini.params:
            continue
        bad = []
        for val in (None, 'none', 'mean', 'sum'):
            w = World(model)
            ob = MObj(w, 'loss', cls, initialised=False)
            args = {ini.pos_params[0]: ob, 'reduction': val}
            for p_ in ini.params:
                if p_ not in args and p_ not in ini.defaults():
                    args[p_] = P.atom(p_)
            try:
                outs = w.pe().paths(ini, args, max_paths=32)
            except Incomplete as u:
                bad.append('reduction=%r: %s' % (val, u))
                continue
            done = [o for o in outs if o.kind in ('fall', 'return')]
            if len(done) != 1 or len(outs) != 1:
                bad.append('reduction=%r: paths %s' % (val, [o.kind for o in outs]))
                continue
            got = ob.attrs.get('reduction', '<unset>')
            if not (got is val or got == val):
                bad.append('reduction=%r is stored as %r' % (val, got))
        R.ob('C06.ENUM', ini.qualname, 'self.reduction after %s(reduction=v) for v in None / none / mean / sum' % cls.name, not bad,
             'the constructor must keep the documented reduction values as given (None means no reduction): %s' % bad[:2], ini.loc)


def check_plumb(model, R):
    R.rule('C06.LAYER-PLUMB', 'each layer forward hands its stored geometry / parameters to the functional op in the parameter of the same name', floor=10)
    pairs = [('Linear', 'linear'), ('Unfold', 'unfold'), ('Fold', 'fold'), ('MaxPool1d', 'max_pool1d'), ('MaxPool2d', 'max_pool2d'), ('AvgPool1d', 'avg_pool1d'), ('AvgPool2d', 'avg_pool2d'),
             ('Conv1d', 'conv1d'), ('Conv2d', 'conv2d'), ('BatchNorm', 'batch_norm')]
    for cls, fn in pairs:
        f = model.func('%s.%s.forward' % (LY, cls))
        callee = model.func('synapgrad.nn.functional.' + fn)
        calls = [c for c in ast.walk(f.node) if isinstance(c, ast.Call) and model.resolve(f.mod, c.func) == callee.qualname]
        if len(calls) != 1:
            R.ob('C06.LAYER-PLUMB', f.qualname, 'call of F.%s' % fn, False, 'the layer must delegate to F.%s exactly once' % fn, f.loc)
            continue
        b, _ = bind_call(calls[0], callee)
        bad = []
        for p, a in b.items():
            t = norm(a)
            if t.startswith('self.'):
                attr = t[5:]
                if attr != p and not (cls == 'BatchNorm' and (attr, p) in (('eps', 'eps'),)):
                    bad.append('%s=%s' % (p, t))
        first = callee.pos_params[0]
        ok = not bad and norm(b.get(first)) == f.pos_params[1]
        need = [p for p in callee.pos_params[1:] if p in ('weight', 'bias', 'kernel_size', 'stride', 'padding', 'dilation', 'output_size', 'eps')]
        missing = [p for p in need if p not in b and not (cls in ('Unfold',) and p == 'x')]
        R.ob('C06.LAYER-PLUMB', f.qualname, 'F.%s(%s)' % (fn, ', '.join('%s=%s' % (k, norm(v)) for k, v in b.items()))[:150], ok and not missing,
             'stored attributes must be passed in their own role (mismatched %s, not passed %s)' % (bad, missing), f.loc)
    # Flatten / Neuron
    fl = model.func(LY + '.Flatten.forward')
    rets = [n for n in fl.node.body if isinstance(n, ast.Return)]
    R.ob('C06.LAYER-PLUMB', fl.qualname, norm(rets[0].value) if rets else 'no return', bool(rets) and norm(rets[0].value) == 'x.flatten(self.start_dim, self.end_dim)', 'Flatten = x.flatten(start_dim, end_dim)', fl.loc)
