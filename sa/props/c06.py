"""C06 - forward results of nn ops / layers / losses match their documented definitions (structural part)."""
import ast
from sa import rules_conv as RC
from sa.core import norm, body_walk, dotted, names_in
from sa.cfg import CFG, facts_at
from sa.poly import P, sqrt, TermBuilder, Unsupported
from sa.report import Incomplete
from sa.rules_template import bind_call
from sa.npcanon import npcall, npname

CT = 'synapgrad.conv_tools'
LY = 'synapgrad.nn.layers'


def check(model, R, tier):
    from sa import rules_convpe as CP
    CP.check_conv_pe(model, R, 'C06')
    funcs = [f for f in model.module_functions('synapgrad.cpu_ops') if 'pool' in f.name or 'conv' in f.name]
    RC.check_geom(model, R, 'C06', funcs, declare=False)
    check_layer_geom(model, R)
    check_pad(model, R)
    from sa.rules_defn import check_defn
    check_defn(model, R, 'C06', ['sigmoid', 'softmax', 'log_softmax', 'relu', 'selu', 'mse_loss', 'bce_loss', 'bce_with_logits_loss', 'cross_entropy_loss'],
               'per-element values of activations and losses')
    check_bn_form(model, R)
    check_enum(model, R)
    check_plumb(model, R)
    from sa.props.c12 import check_super_roles
    check_super_roles(model, R, 'C06')
    return dict(
        explanation='Decides: int-or-tuple geometry arguments are normalised before any per-axis use (kernels, conv_tools, layer constructors); the output-size formula floor((L+2p-d(k-1)-1)/s)+1 at all 8 sites; empty outputs raise; '
                    'max pooling pads with -inf and average pooling / convolution with 0, reducers over the full window; batch norm divides by sqrt(var + eps) with the biased variance; string-mode dispatch of Loss.reduction is exhaustive; '
                    'each layer hands its stored geometry / parameters to the functional op in the same role. Window layout, loss formulas and value equality with PyTorch are not decided.',
        assumptions=['the PyTorch output-length formula quoted in the property statement'],
        technique='partial evaluation over a shape-level domain (conv_tools, Loss dispatch) + dominance-based geometry typestate + call-binding role comparison')


def check_layer_geom(model, R):
    """layer constructors evaluated (sa/peval.py) with int-form geometry arguments: the value stored on the layer is the per-axis pair; a missing stride
    becomes the kernel size.  The functional pools are evaluated with stride=None: the forward kernel receives the kernel size as stride."""
    from sa.peval import PE, Vec
    R.rule('C06.LAYER-GEOM', 'layer constructors store int-or-tuple geometry expanded per axis (np.broadcast_to) - evaluated with the int form; a missing stride defaults to the kernel size', floor=8)
    A = P.atom

    def pairs(name):
        return [A('%s[0]' % name), A('%s[1]' % name)]

    def is_pair(v, name):
        return isinstance(v, (Vec, tuple, list)) and len(v) == 2 and all(isinstance(x, P) for x in v) and list(v) == pairs(name)

    def hook(pe, name, e, args, kw, env, func, depth):
        n = name or ''
        if n.startswith('synapgrad.tensor.') or n.startswith('synapgrad.empty') or n.endswith('.Parameter') or n.startswith('synapgrad.nn.init.'):
            return Opaque_(n)
        return NotImplemented
    from sa.peval import Opaque as Opaque_
    for cls in ('Unfold', 'Fold', 'MaxPool2d', 'AvgPool2d', 'Conv2d'):
        f = model.func('%s.%s.__init__' % (LY, cls))
        geo = [p for p in f.params if p in RC.GEOM]
        dflt_none = [p for p in geo if isinstance(f.defaults().get(p), ast.Constant) and f.defaults()[p].value is None]
        for none_case in ([False, True] if dflt_none else [False]):
            args = {p: A(p) for p in f.pos_params[1:]}
            if none_case:
                for p in dflt_none:
                    args[p] = None
            try:
                outs = PE(model, call_hook=hook, atoms_not_none=True, default_pred=lambda t: False if ("== 'valid'" in t or "== 'same'" in t or 'isinstance(padding, str)' in t) else None, max_depth=3).paths(f, args, max_paths=64)
            except Incomplete as u:
                R.incomplete_at('C06.LAYER-GEOM', f.qualname, str(u))
                continue
            outs = [o for o in outs if o.kind != 'raise']
            for p in geo:
                bad = []
                for o in outs:
                    st = [v for k, v, s_ in o.stores if k == 'self.' + p]
                    want_name = 'kernel_size' if (none_case and p in dflt_none) else p
                    if not st or not is_pair(st[-1], want_name):
                        bad.append(repr(st[-1]) if st else 'not stored')
                R.ob('C06.LAYER-GEOM', f.qualname, '%s%s: self.%s = per-axis pair' % (p, ' (=None)' if none_case and p in dflt_none else '', p), bool(outs) and not bad,
                     'the documented int form must be expanded per axis before it is stored%s: got %s' % (' (a missing stride is the kernel size)' if none_case else '', bad[:2]), f.loc)
    for cls in ('MaxPool1d', 'AvgPool1d'):
        f = model.func('%s.%s.__init__' % (LY, cls))
        args = {p: A(p) for p in f.pos_params[1:]}
        args['stride'] = None
        try:
            outs = [o for o in PE(model, call_hook=hook, atoms_not_none=True, max_depth=3).paths(f, args) if o.kind != 'raise']
        except Incomplete as u:
            R.incomplete_at('C06.LAYER-GEOM', f.qualname, str(u))
            continue
        ok = bool(outs) and all([v for k, v, s_ in o.stores if k == 'self.stride'][-1:] == [A('kernel_size')] for o in outs)
        R.ob('C06.LAYER-GEOM', f.qualname, 'stride=None defaults to kernel_size', ok, 'default stride of pooling is the kernel size', f.loc)
    from sa.rules_flags import _hooks, TObj, TENSOR
    ch, ah, sh, dp, cmh = _hooks(model, model.func(TENSOR + '.__init__'))
    for fn in ('max_pool1d', 'max_pool2d', 'avg_pool1d', 'avg_pool2d'):
        f = model.func('synapgrad.nn.functional.' + fn)
        args = {p: A(p) for p in f.pos_params[1:]}
        args[f.pos_params[0]] = TObj(f.pos_params[0])
        args['stride'] = None
        try:
            outs = PE(model, preds={'%s.requires_grad' % f.pos_params[0]: False}, call_hook=ch, attr_hook=ah, sub_hook=sh, default_pred=dp, comp_hook=cmh, atoms_not_none=True, max_depth=2).paths(f, args, max_paths=64)
        except Incomplete as u:
            R.incomplete_at('C06.LAYER-GEOM', f.qualname, str(u))
            continue
        kc = [r for o in outs if o.kind == 'return' for r, conds in o.user.get('kcalls', []) if r.kname.endswith(fn + '_forward')]
        kf = model.funcs.get('synapgrad.cpu_ops.%s_forward' % fn)
        ok = bool(kc) and kf is not None
        if ok:
            for r in kc:
                b = dict(zip(kf.pos_params, r.args))
                b.update(r.kw)
                ok = ok and isinstance(b.get('stride'), P) and b['stride'] == b.get('kernel_size')
        R.ob('C06.LAYER-GEOM', f.qualname, 'stride=None: the forward kernel receives stride = kernel_size', bool(ok), 'default stride of pooling is the kernel size', f.loc)


def _top(f, st):
    for s in f.node.body:
        if any(x is st for x in ast.walk(s)):
            return s
    return st


def check_pad(model, R):
    R.rule('C06.PAD', 'max pooling extracts windows with pad_value=-inf (padding never wins); average pooling and convolution pad with 0 (padded zeros are counted); the reducer runs over the whole window', floor=6)  # (conv part; pooling part declared in rules_convpe)
    from sa.rules_convpe import check_pool_forward
    check_pool_forward(model, R, 'C06')
    for q, want_pad, red in (('conv1d_forward', '0', None), ('conv2d_forward', '0', None)):
        f = model.func('synapgrad.cpu_ops.' + q)
        ew = [c for c in ast.walk(f.node) if isinstance(c, ast.Call) and dotted(c.func) == 'extract_windows']
        ok = len(ew) == 1
        if ok:
            b, _ = bind_call(ew[0], model.func(CT + '.extract_windows'))
            pv = norm(b['pad_value']) if 'pad_value' in b else '0'
            ok = pv in (want_pad, '-numpy.inf' if want_pad == '-np.inf' else want_pad, "float('-inf')" if want_pad == '-np.inf' else '0.0')
            roles = {k: norm(b[k]) if k in b else None for k in ('kernel_size', 'step', 'padding', 'dilation')}
            ok = ok and roles == {'kernel_size': 'kernel_size', 'step': 'stride', 'padding': 'padding', 'dilation': 'dilation'}
            if red:
                reds = [c for c in ast.walk(f.node) if isinstance(c, ast.Call) and npname(model, f, c) in ('max', 'mean', 'min', 'sum', 'amax', 'amin')]
                ok = ok and len(reds) == 1 and npname(model, f, reds[0]) == red
                if ok:
                    rb = npcall(model, f, reds[0])[1]
                    ok = norm(rb.get('axis')) == '-1' and not any(k in rb for k in ('where', 'weights')) and 'windows' in names_in(rb.get('a'))
                    if '2d' in q:
                        # both kernel axes are merged before reducing: reshape(windows, (*windows.shape[:-2], -1))
                        rs = [c for c in ast.walk(rb['a']) if isinstance(c, ast.Call) and npname(model, f, c) == 'reshape']
                        ok = ok and len(rs) == 1 and norm(npcall(model, f, rs[0])[1].get('newshape')).replace(' ', '') == '(*windows.shape[:-2],-1)'
        R.ob('C06.PAD', f.qualname, norm(ew[0])[:100] if ew else 'no extract_windows', ok, 'pad value %s, geometry roles (kernel_size, step=stride, padding, dilation), reducer %s over the full window' % (want_pad, red), f.loc)


def check_bn_form(model, R):
    R.rule('C06.BN', 'batch norm normalises as (x - mean) / sqrt(var + eps) with eps inside the square root and the biased batch variance', floor=2)
    f = model.func('synapgrad.cpu_ops.batch_norm_forward')
    env = {}
    atom_of = lambda e: P.atom(norm(e.func.value) if isinstance(e, ast.Call) else norm(e)) if isinstance(e, (ast.Attribute, ast.Subscript)) else None

    def on_call(tb, name, e):
        if name == 'numpy.reshape':
            return tb.build(e.args[0])
        if isinstance(e.func, ast.Attribute) and e.func.attr == 'reshape':
            return tb.build(e.func.value)
        return None
    got = {}
    for n in sorted([x for x in body_walk(f.node) if isinstance(x, ast.Assign) and isinstance(x.targets[0], ast.Name)], key=lambda x: x.lineno):
        nm = n.targets[0].id
        if nm in ('std', 'x_norm') and nm not in got:
            try:
                got[nm] = TermBuilder(env, atom_of, model, f.mod, on_call).build(n.value)
                env[nm] = got[nm]
            except Unsupported as u:
                got[nm] = None
    x, mean, var, eps = P.atom('x'), P.atom('mean'), P.atom('var'), P.atom('eps')
    R.ob('C06.BN', f.qualname, 'std = %s' % (got.get('std').canon() if got.get('std') is not None else None), got.get('std') is not None and got['std'] == sqrt(var + eps), 'std = sqrt(var + eps) (eps inside the root)', f.loc)
    R.ob('C06.BN', f.qualname, 'x_norm = %s' % (got.get('x_norm').canon()[:100] if got.get('x_norm') is not None else None), got.get('x_norm') is not None and got['x_norm'] == (x - mean) / sqrt(var + eps), 'x_norm = (x - mean) / sqrt(var + eps)', f.loc)


def check_enum(model, R):
    """Loss.__call__ evaluated for every value of self.reduction: the returned term is compared"""
    from sa.peval import PE
    R.rule('C06.ENUM', 'Loss.reduction dispatch is exhaustive: sum -> loss.sum(), mean -> loss.mean(), none/None -> unreduced, anything else raises (evaluated per value of self.reduction)', floor=5)
    f = model.func('synapgrad.nn.losses.Loss.__call__')
    LOSS = P.atom('LOSS')
    want = {'sum': P.atom('sum(LOSS)'), 'mean': P.atom('mean(LOSS)'), 'none': LOSS, None: LOSS, 'avg': 'raise', 'Sum': 'raise', '': 'raise'}
    for red, w in want.items():
        rec = []

        def hook(pe, name, e, args, kw, env, func, depth):
            if isinstance(e.func, ast.Attribute) and isinstance(e.func.value, ast.Call) and norm(e.func.value.func) == 'super' and e.func.attr in ('__call__', 'forward'):
                rec.append([a for a in args])
                return LOSS
            red_name = e.func.attr if isinstance(e.func, ast.Attribute) else (name or '').split('.')[-1]
            if red_name in ('sum', 'mean'):
                recv = pe.expr(e.func.value, env, func, depth) if isinstance(e.func, ast.Attribute) and not (name or '').startswith('synapgrad') else (args[0] if args else None)
                if isinstance(recv, P) and recv == LOSS and not kw and len(args) <= (0 if isinstance(e.func, ast.Attribute) and not (name or '').startswith('synapgrad') else 1):
                    return P.atom('%s(LOSS)' % red_name)
            return NotImplemented
        try:
            outs = PE(model, atoms={'self.reduction': red}, call_hook=hook).paths(f, {})
        except Incomplete as u:
            R.incomplete_at('C06.ENUM', f.qualname, 'reduction=%r: %s' % (red, u))
            continue
        got = [(o.kind, o.value) for o in outs]
        if w == 'raise':
            ok = bool(outs) and all(o.kind == 'raise' for o in outs)
        else:
            ok = len(outs) == 1 and outs[0].kind == 'return' and isinstance(outs[0].value, P) and outs[0].value == w
        ok = ok and len(rec) == 1 and [a.canon() if isinstance(a, P) else a for a in rec[0]] == f.pos_params[1:3]
        R.ob('C06.ENUM', f.qualname, 'reduction=%r -> %s' % (red, [(k, v.canon() if isinstance(v, P) else v) for k, v in got]), ok,
             'documented: %s of the per-element loss forward(y_pred, y_true)' % ('a ValueError (a misspelt reduction must not silently return the unreduced loss)' if w == 'raise' else w.canon()), f.loc)


def check_plumb(model, R):
    R.rule('C06.LAYER-PLUMB', 'each layer forward hands its stored geometry / parameters to the functional op in the parameter of the same name', floor=10)
    pairs = [('Linear', 'linear'), ('Unfold', 'unfold'), ('Fold', 'fold'), ('MaxPool1d', 'max_pool1d'), ('MaxPool2d', 'max_pool2d'), ('AvgPool1d', 'avg_pool1d'), ('AvgPool2d', 'avg_pool2d'),
             ('Conv1d', 'conv1d'), ('Conv2d', 'conv2d'), ('BatchNorm', 'batch_norm')]
    for cls, fn in pairs:
        f = model.func('%s.%s.forward' % (LY, cls))
        callee = model.func('synapgrad.nn.functional.' + fn)
        calls = [c for c in ast.walk(f.node) if isinstance(c, ast.Call) and model.resolve(f.mod, c.func) == callee.qualname]
        if len(calls) != 1:
            R.ob('C06.LAYER-PLUMB', f.qualname, 'call of F.%s' % fn, False, 'the layer must delegate to F.%s exactly once' % fn, f.loc)
            continue
        b, _ = bind_call(calls[0], callee)
        bad = []
        for p, a in b.items():
            t = norm(a)
            if t.startswith('self.'):
                attr = t[5:]
                if attr != p and not (cls == 'BatchNorm' and (attr, p) in (('eps', 'eps'),)):
                    bad.append('%s=%s' % (p, t))
        first = callee.pos_params[0]
        ok = not bad and norm(b.get(first)) == f.pos_params[1]
        need = [p for p in callee.pos_params[1:] if p in ('weight', 'bias', 'kernel_size', 'stride', 'padding', 'dilation', 'output_size', 'eps')]
        missing = [p for p in need if p not in b and not (cls in ('Unfold',) and p == 'x')]
        R.ob('C06.LAYER-PLUMB', f.qualname, 'F.%s(%s)' % (fn, ', '.join('%s=%s' % (k, norm(v)) for k, v in b.items()))[:150], ok and not missing,
             'stored attributes must be passed in their own role (mismatched %s, not passed %s)' % (bad, missing), f.loc)
    # Flatten / Neuron
    fl = model.func(LY + '.Flatten.forward')
    rets = [n for n in fl.node.body if isinstance(n, ast.Return)]
    R.ob('C06.LAYER-PLUMB', fl.qualname, norm(rets[0].value) if rets else 'no return', bool(rets) and norm(rets[0].value) == 'x.flatten(self.start_dim, self.end_dim)', 'Flatten = x.flatten(start_dim, end_dim)', fl.loc)
