"""C20 - Trainer.fit performs one optimisation step per batch in the right mode (orderings / regions of nn/utils/train.py)."""
import ast
from sa.core import norm, body_walk, dotted, names_in
from sa.cfg import CFG, facts_at
from sa.defuse import maybe_unbound
from sa.poly import P, TermBuilder, Unsupported
from sa.report import Incomplete
from sa import rules_engine as E
from sa.peval import PE, Opaque, FStr
from sa.poly import as_p
import itertools

TMOD = 'synapgrad.nn.utils.train'
TR = TMOD + '.Trainer'


def _calls(node, text):
    return [c for c in ast.walk(node) if isinstance(c, ast.Call) and norm(c.func) == text]


def _stmt_of(f, node):
    for s in ast.walk(f.node):
        if isinstance(s, ast.stmt) and not isinstance(s, (ast.If, ast.For, ast.While, ast.With, ast.Try, ast.FunctionDef)) and any(x is node for x in ast.walk(s)):
            return s


def batch_loop(f, loader_param):
    loops = [n for n in ast.walk(f.node) if isinstance(n, ast.For) and loader_param in names_in(n.iter)]
    if len(loops) != 1:
        raise Incomplete('%s: expected one loop over %s, found %d' % (f.qualname, loader_param, len(loops)))
    return loops[0]


def check(model, R, tier):
    R.rule('C20.STEP', 'per batch: zero_grad(), <loss of this batch>.backward(), optimizer.step() each exactly once, unconditionally, in that order; __train runs once per epoch', floor=4)
    R.rule('C20.TRAINMODE', 'model.train() dominates the batch loop of every epoch, with no eval() in between', floor=2)
    R.rule('C20.EVAL', 'validation and test run after model.eval(), entirely inside `with engine.no_grad()` (manager built in the header) and call no backward / optimizer / zero_grad / train()', floor=6)
    R.rule('C20.HISTORY', 'record_metrics runs once per epoch for train and iff a validation loader is given for validation; one value appended per key; val_ prefix; epoch loss = sum of batch losses / number of batches', floor=7)
    R.rule('C20.EVALUATOR', 'Evaluator mode dispatch is exhaustive with a raising fall-through; accuracy = correct / total; compute() resets the accumulators', floor=4)
    R.rule('C20.DEFASSIGN', 'names used after a loop are definitely assigned on every path (a loader with zero batches runs the loop zero times)', floor=2)
    fit = model.func(TR + '.fit')
    tr = model.func(TR + '.__train')
    va = model.func(TR + '.__validate')
    te = model.func(TR + '.test')
    # ---------------------------------------------------------------- STEP
    lp = batch_loop(tr, tr.pos_params[1])
    cfg = CFG(tr.node)
    z = [c for c in _calls(lp, 'self.optimizer.zero_grad')]
    s = [c for c in _calls(lp, 'self.optimizer.step')]
    b = [c for c in ast.walk(lp) if isinstance(c, ast.Call) and isinstance(c.func, ast.Attribute) and c.func.attr == 'backward']
    ok = len(z) == len(s) == len(b) == 1
    R.ob('C20.STEP', tr.qualname, 'zero_grad x%d, backward x%d, step x%d per iteration' % (len(z), len(b), len(s)), ok, 'exactly one of each per batch', tr.loc)
    if ok:
        sz, sb, ss = _stmt_of(tr, z[0]), _stmt_of(tr, b[0]), _stmt_of(tr, s[0])
        direct = all(st in lp.body for st in (sz, sb, ss))
        order = direct and lp.body.index(sz) < lp.body.index(sb) < lp.body.index(ss)
        R.ob('C20.STEP', tr.qualname, 'order %s' % [norm(x) for x in sorted((sz, sb, ss), key=lambda x: x.lineno)], order,
             'gradients must be cleared before backward and the step taken after it, all three directly in the loop body (not conditional, not in an inner loop)', '%s:%d' % (tr.mod.relpath, lp.lineno))
        loss = b[0].func.value
        binds = [n for n in lp.body if isinstance(n, ast.Assign) and norm(n.targets[0]) == norm(loss)]
        okl = len(binds) == 1 and isinstance(binds[0].value, ast.Call) and norm(binds[0].value.func) == 'self.criterion' and binds[0].lineno < sb.lineno
        if okl:
            args = [norm(a) for a in binds[0].value.args]
            outs = [n for n in lp.body if isinstance(n, ast.Assign) and norm(n.targets[0]) == args[0]]
            okl = len(outs) == 1 and 'self.model(' in norm(outs[0].value) and outs[0].lineno < binds[0].lineno
            unpack = [n for n in lp.body if isinstance(n, ast.Assign) and isinstance(n.targets[0], ast.Tuple) and args[1] in [norm(e) for e in n.targets[0].elts]]
            data_var = norm(lp.target.elts[-1]) if isinstance(lp.target, ast.Tuple) else norm(lp.target)
            okl = okl and len(unpack) == 1 and norm(unpack[0].value) == data_var
        R.ob('C20.STEP', tr.qualname, 'differentiated loss = %s' % (norm(binds[0].value) if binds else None), okl, 'the loss that is differentiated must be criterion(model(inputs), labels) of THIS batch', tr.loc)
    fcfg = CFG(fit.node)
    eloops = [n for n in body_walk(fit.node) if isinstance(n, ast.For) and norm(n.iter) == 'range(epochs)']
    tcalls = _calls(fit.node, 'self.__train')
    ok = len(eloops) == 1 and len(tcalls) == 1
    if ok:
        st = _stmt_of(fit, tcalls[0])
        ok = st in eloops[0].body and [norm(a) for a in tcalls[0].args][:1] == [fit.pos_params[1]]
    R.ob('C20.STEP', fit.qualname, '__train once per epoch in for epoch in range(epochs)', ok, 'updates = epochs x len(train_loader) needs exactly one unconditional __train(train_loader) per epoch', fit.loc)
    # ---------------------------------------------------------------- TRAINMODE
    tm = [_stmt_of(tr, c) for c in _calls(tr.node, 'self.model.train')]
    ev = [_stmt_of(tr, c) for c in _calls(tr.node, 'self.model.eval')]
    ok = len(tm) >= 1 and any(cfg.dominates(t, lp) and not cfg.conditions(t) for t in tm) and not ev
    R.ob('C20.TRAINMODE', tr.qualname, 'model.train() before the batch loop', ok, 'every update must be computed in training mode', tr.loc)
    if eloops:
        tm2 = [_stmt_of(fit, c) for c in _calls(eloops[0], 'self.model.train')]
        st = _stmt_of(fit, tcalls[0]) if tcalls else None
        ok2 = bool(tm2) and st is not None and tm2[0] in eloops[0].body and eloops[0].body.index(tm2[0]) < eloops[0].body.index(st)
        R.ob('C20.TRAINMODE', fit.qualname, 'model.train() at the start of every epoch', ok2 or ok, 'validation leaves the model in eval mode: each epoch must switch back', fit.loc)
    # ---------------------------------------------------------------- EVAL
    for f, loader in ((va, va.pos_params[1]), (te, te.pos_params[1])):
        c2 = CFG(f.node)
        try:
            l2 = batch_loop(f, loader)
        except Incomplete as e:
            R.incomplete_at('C20.EVAL', f.qualname, str(e))
            continue
        evs = [_stmt_of(f, c) for c in _calls(f.node, 'self.model.eval')]
        ok = bool(evs) and c2.dominates(evs[0], l2) and not c2.conditions(evs[0])
        R.ob('C20.EVAL', f.qualname, 'model.eval() before the loop', ok, 'evaluation must run in eval mode', f.loc)
        withs = [w for w, fld in c2.enclosing(l2) if isinstance(w, ast.With)]
        okw = any(isinstance(it.context_expr, ast.Call) and norm(it.context_expr.func).endswith('.no_grad') and it.optional_vars is None for w in withs for it in w.items)
        R.ob('C20.EVAL', f.qualname, 'loop inside with %s' % [norm(it.context_expr) for w in withs for it in w.items], okw, 'evaluation must not track gradients; the manager must be built in the with header so that exit restores the mode', f.loc)
        bad = [norm(c.func) for c in ast.walk(f.node) if isinstance(c, ast.Call) and isinstance(c.func, ast.Attribute)
               and (c.func.attr in ('backward', 'zero_grad') or norm(c.func) in ('self.optimizer.step', 'self.model.train') or (c.func.attr == 'step' and 'optimizer' in norm(c.func)))]
        R.ob('C20.EVAL', f.qualname, 'no update calls in evaluation: %s' % bad, not bad, 'validation / test must not change parameters or mode', f.loc)
    # ---------------------------------------------------------------- HISTORY
    rm = model.funcs.get(TR + '.fit.record_metrics')
    if rm is None:
        R.incomplete_at('C20.HISTORY', fit.qualname, 'record_metrics helper not found')
    else:
        d, m = rm.pos_params[0], rm.pos_params[1]
        loops = [n for n in rm.node.body if isinstance(n, ast.For) and norm(n.iter) == m]
        ok = len(loops) == 1
        if ok:
            l3 = loops[0]
            k, v = [norm(e) for e in l3.target.elts] if isinstance(l3.target, ast.Tuple) else (None, None)
            c3 = CFG(rm.node)
            apps = [n for n in ast.walk(l3) if isinstance(n, ast.Expr) and isinstance(n.value, ast.Call) and norm(n.value) == '%s[%s].append(%s)' % (d, k, v)]
            news = [n for n in ast.walk(l3) if isinstance(n, ast.Assign) and norm(n.targets[0]) == '%s[%s]' % (d, k) and norm(n.value) == '[%s]' % v]
            ok = len(apps) == 1 and len(news) == 1
            if ok:
                fa = {(t, p) for t, p, _ in facts_at(c3, apps[0]) if d in t}
                fn_ = {(t, p) for t, p, _ in facts_at(c3, news[0]) if d in t}
                ok = len(fa) == 1 and len(fn_) == 1 and list(fa)[0][0] == list(fn_)[0][0] and list(fa)[0][1] != list(fn_)[0][1]
        R.ob('C20.HISTORY', rm.qualname, 'one value per key per call (append | create)', ok, 'each recorded metric must add exactly one history entry', rm.loc)
        rcalls = [c for c in ast.walk(fit.node) if isinstance(c, ast.Call) and norm(c.func) == 'record_metrics']
        okh = len(rcalls) == 2 and bool(eloops)
        if okh:
            sts = [_stmt_of(fit, c) for c in rcalls]
            args = [[norm(a) for a in c.args] for c in rcalls]
            tvar = norm(_stmt_of(fit, tcalls[0]).targets[0]) if tcalls else None
            vcalls = _calls(fit.node, 'self.__validate')
            vvar = norm(_stmt_of(fit, vcalls[0]).targets[0]) if vcalls else None
            f0 = {(t, p) for t, p, _ in facts_at(fcfg, sts[0])}
            f1 = {(t, p) for t, p, _ in facts_at(fcfg, sts[1])}
            vl = fit.pos_params[3]
            okh = args[0] == ['self.history', tvar] and args[1] == ['self.history', vvar] and not [x for x in f0 if vl in x[0]] and ('%s is not None' % vl, True) in f1 \
                and all(not [l for l in fcfg.in_loop(s) if l is not eloops[0]] for s in sts) and fcfg.in_loop(sts[0]) == [eloops[0]]
            vst = _stmt_of(fit, vcalls[0]) if vcalls else None
            okh = okh and vst is not None and ('%s is not None' % vl, True) in {(t, p) for t, p, _ in facts_at(fcfg, vst)}
        R.ob('C20.HISTORY', fit.qualname, 'record_metrics(train) every epoch; record_metrics(val) iff validation_loader', okh, 'history must get one entry per epoch for every metric', fit.loc)
        hinit = [n for n in body_walk(fit.node) if isinstance(n, ast.Assign) and norm(n.targets[0]) == 'self.history' and norm(n.value) in ('{}', 'dict()')]
        R.ob('C20.HISTORY', fit.qualname, 'self.history = {} before the epochs', len(hinit) == 1 and bool(eloops) and fcfg.dominates(hinit[0], eloops[0]) and not fcfg.in_loop(hinit[0]) and len([n for n in ast.walk(fit.node) if isinstance(n, ast.Assign) and norm(n.targets[0]) == 'self.history']) == 1, 'history starts empty once per fit and is never re-created inside the epoch loop', fit.loc)
        last = fit.node.body[-1]
        R.ob('C20.HISTORY', fit.qualname, norm(last), isinstance(last, ast.Return) and norm(last.value) == 'self.history', 'fit returns the history', fit.loc)
    for f, key, acc_name in ((tr, "'loss'", None), (va, "'val_loss'", None)):
        c2 = CFG(f.node)
        l2 = batch_loop(f, f.pos_params[1])
        ivar = norm(l2.target.elts[0]) if isinstance(l2.target, ast.Tuple) and isinstance(l2.iter, ast.Call) and dotted(l2.iter.func) == 'enumerate' else None
        accs = [n for n in ast.walk(l2) if isinstance(n, ast.AugAssign) and isinstance(n.op, ast.Add) and '.item()' in norm(n.value)]
        rets = [n for n in body_walk(f.node) if isinstance(n, ast.Return)]
        ok = len(accs) == 1 and len(rets) == 1 and ivar is not None
        if ok:
            acc = norm(accs[0].target)
            init0 = [n for n in body_walk(f.node) if isinstance(n, ast.Assign) and norm(n.targets[0]) == acc and norm(n.value) == '0' and c2.dominates(n, l2)]
            means = [n for n in body_walk(f.node) if isinstance(n, ast.Assign) and isinstance(n.value, ast.BinOp) and isinstance(n.value.op, ast.Div) and norm(n.value.left) == acc and not any(x is n for x in ast.walk(l2))]
            ok = bool(init0) and len(means) == 1 and norm(means[0].value.right) in ('%s + 1' % ivar, '(%s + 1)' % ivar, 'len(%s)' % f.pos_params[1]) and accs[0] in l2.body
            if ok:
                mv = norm(means[0].targets[0])
                first = rets[0].value.left if isinstance(rets[0].value, ast.BinOp) else rets[0].value
                ok = norm(first) == '[(%s, %s)]' % (key, mv)
        R.ob('C20.HISTORY', f.qualname, 'epoch %s = accumulated batch losses / (i + 1)' % key, ok, 'the reported epoch loss must be the mean of the per-batch losses under the key %s' % key, f.loc)
    pre = [c for c in ast.walk(va.node) if isinstance(c, ast.Call) and isinstance(c.func, ast.Attribute) and c.func.attr in ('step', 'compute') and 'evaluator' in norm(c.func)]
    okp = bool(pre) and all(any(k.arg == 'prefix' and norm(k.value) == "'val'" for k in c.keywords) for c in pre)
    R.ob('C20.HISTORY', va.qualname, 'evaluator called with prefix=\'val\' (%d calls)' % len(pre), okp, 'validation metrics must carry the val_ prefix', va.loc)
    try:
        check_evaluator(model, R)
    except Incomplete as u:
        R.incomplete_at('C20.EVALUATOR', TMOD + '.Evaluator', str(u))
    # ---------------------------------------------------------------- DEFASSIGN
    for f in (tr, va, te, fit):
        ub = maybe_unbound(f.node)
        seen = set()
        for name, st in ub:
            if (name,) in seen:
                continue
            seen.add((name,))
            R.ob('C20.DEFASSIGN', f.qualname, 'local `%s` read after a loop that may run zero times' % name, False,
                 'local `%s` may be unbound here: a loader with zero batches (len(dataset) < batch_size) runs the loop zero times -> UnboundLocalError' % name, '%s:%d' % (f.mod.relpath, st.lineno))
        if not ub:
            R.ob('C20.DEFASSIGN', f.qualname, 'all locals definitely assigned', True, '', f.loc)
    return dict(
        explanation='Step counts and modes are orderings on the CFG of fit/__train/__validate/test. Decides: one zero_grad -> backward(loss of this batch) -> step per iteration, unconditionally and in order; '
                    'one __train per epoch; train mode dominating the batch loop; eval mode + no_grad region without any update call for validation/test; history bookkeeping (one entry per epoch per key, val_ prefix, '
                    'mean of batch losses); exhaustive evaluator mode dispatch; definite assignment of names used after loops. User callbacks are opaque.',
        assumptions=['model / optimizer / criterion follow the package\'s own APIs (C07, C08, C12, C13 cover their behaviour)'],
        technique='CFG dominance and region checks + call-site enumeration + definite-assignment dataflow + partial evaluation of the Evaluator')


# ------------------------------------------------------------------------------------------------ Evaluator on evaluated paths
def _aname(v):
    if isinstance(v, P) and len(v.t) == 1:
        (m, c), = v.t.items()
        if c == 1 and len(m) == 1 and m[0][1] == 1:
            return m[0][0]
    return None


def _ev_hooks(rec):
    A = P.atom

    def call_hook(pe, name, e, args, kw, env, func, depth):
        n = name or ''
        if isinstance(e.func, ast.Attribute) and e.func.attr in ('squeeze', 'detach', 'numpy', 'cpu', 'flatten') and not n.startswith('numpy.') and not args:
            return pe.expr(e.func.value, env, func, depth)
        if n == 'numpy.where' and len(args) == 3 and isinstance(args[0], P):
            return as_p(args[1]) * args[0] + as_p(args[2]) * (1 - args[0])
        if n == 'numpy.argmax' and args and _aname(args[0]):
            ax = kw.get('axis', args[1] if len(args) > 1 else None)
            return A('argmax%s(%s)' % (ax, _aname(args[0])))
        if n == 'numpy.concatenate' and args and isinstance(args[0], (list, tuple)):
            return ('concat',) + tuple(args[0])
        if isinstance(e.func, ast.Attribute) and e.func.attr in ('sum', 'mean') and not n.startswith(('numpy.', 'synapgrad')) and not args:
            v = pe.expr(e.func.value, env, func, depth)
            if _aname(v) and _aname(v).startswith('eq('):
                return A('%s(%s)' % (e.func.attr, _aname(v)))
        if isinstance(e.func, ast.Name) and _aname(env.get(e.func.id)) and 'callback' in _aname(env.get(e.func.id)):
            rec.append((_aname(env[e.func.id]), args))
            return [('cbm', A('cbv'))]
        if n in ('print', 'builtins.print'):
            return None
        return NotImplemented

    def compare_hook(pe, op, a, b):
        if isinstance(op, ast.Eq) and _aname(a) and _aname(b):
            return A('eq(%s)' % ','.join(sorted((_aname(a), _aname(b)))))
        if isinstance(op, (ast.Gt, ast.GtE)) and _aname(a) and isinstance(b, float):
            return A('gt%s(%s)' % (b, _aname(a)))
        return NotImplemented
    return call_hook, compare_hook


def check_evaluator(model, R):
    A = P.atom
    ev = model.cls(TMOD + '.Evaluator')
    consts = {}
    for n in ev.node.body:
        if isinstance(n, ast.Assign) and len(n.targets) == 1 and isinstance(n.targets[0], ast.Name) and isinstance(n.value, ast.Constant) and isinstance(n.value.value, str):
            consts[n.targets[0].id] = n.value.value
    if not {'BINARY', 'MULTI_CLASS', 'CATEGORICAL'} <= set(consts):
        raise Incomplete('Evaluator mode constants not found: %s' % sorted(consts))
    base = {'self.%s' % k: v for k, v in consts.items()}
    stp = model.func(TMOD + '.Evaluator.step')
    rep = model.func(TMOD + '.Evaluator.report')
    cp = model.func(TMOD + '.Evaluator.__compute')
    comp = model.func(TMOD + '.Evaluator.compute')

    def acc(yt, yp):
        return A('sum(eq(%s))' % ','.join(sorted((yt, yp)))) / A('len(%s)' % yt)
    want = {'BINARY': ('labels', 'gt0.5(outputs)'), 'MULTI_CLASS': ('labels', 'argmax1(outputs)'), 'CATEGORICAL': ('argmax1(labels)', 'argmax1(outputs)')}
    # ---- step: per mode
    for mode in ('BINARY', 'MULTI_CLASS', 'CATEGORICAL', None):
        rec = []
        ch, cm = _ev_hooks(rec)
        atoms = dict(base, **{'self.mode': consts[mode] if mode else 'no-such-mode', 'self.step_callback': None})
        outs = PE(model, atoms=atoms, preds={'self.accuracy_bool': True}, call_hook=ch, compare_hook=cm, atoms_not_none=True).paths(stp, {'labels': A('labels'), 'outputs': A('outputs'), 'prefix': None})
        if mode is None:
            ok = bool(outs) and all(o.kind == 'raise' for o in outs) and not [s_ for o in outs for s_ in o.stores]
            R.ob('C20.EVALUATOR', stp.qualname, 'unknown mode -> %s' % [o.kind for o in outs], ok, 'an unknown label mode must be rejected (raise) before anything is accumulated, not silently treated as another mode', stp.loc)
            continue
        yt, yp = want[mode]
        ok = len(outs) == 1 and outs[0].kind == 'return' and isinstance(outs[0].value, list) and len(outs[0].value) == 1 and outs[0].value[0][0] == 'accuracy' \
            and isinstance(outs[0].value[0][1], P) and outs[0].value[0][1] == acc(yt, yp)
        if ok:
            st = {k: v for k, v, _ in outs[0].stores}
            ok = st.get('self.y_true') == ('concat', A('self.y_true'), A(yt)) and st.get('self.y_pred') == ('concat', A('self.y_pred'), A(yp))
        R.ob('C20.EVALUATOR', stp.qualname, 'mode %s -> %s' % (mode, [(o.kind, _showm(o.value)) for o in outs]), ok,
             'mode %s: predictions %s vs labels %s, accuracy = equal / total of THIS batch, both appended to the epoch accumulators' % (mode, yp, yt), stp.loc)
    for mode in ('BINARY', 'MULTI_CLASS', 'CATEGORICAL', None):
        rec = []
        ch, cm = _ev_hooks(rec)
        atoms = dict(base, **{'self.mode': consts[mode] if mode else 'no-such-mode'})
        outs = PE(model, atoms=atoms, call_hook=ch, compare_hook=cm, atoms_not_none=True, default_pred=lambda t: True if 'auc' in t else None).paths(rep, {p_: A(p_) for p_ in rep.pos_params[1:]})
        ok = bool(outs) and (all(o.kind == 'raise' for o in outs) if mode is None else all(o.kind != 'raise' for o in outs))
        R.ob('C20.EVALUATOR', rep.qualname, 'mode %s -> %s' % (mode or 'unknown', sorted({o.kind for o in outs})), ok, 'report accepts the three documented modes and rejects any other', rep.loc)
    # ---- __compute: which metrics, under which names
    for accb, cb, pref in itertools.product((True, False), (None, A('callback')), (None, A('prefix'), 'val')):
        rec = []
        ch, cm = _ev_hooks(rec)
        outs = PE(model, preds={'self.accuracy_bool': accb}, call_hook=ch, compare_hook=cm, atoms_not_none=True).paths(cp, {'y_true': A('yt'), 'y_pred': A('yp'), 'prefix': pref, 'callback': cb})
        exp = ([('accuracy', acc('yt', 'yp'))] if accb else []) + ([('cbm', A('cbv'))] if cb is not None else [])
        if pref is not None:
            exp = [(('val_' + k) if pref == 'val' else FStr([pref, '_' + k]), v) for k, v in exp]
        got = outs[0].value if len(outs) == 1 and outs[0].kind == 'return' else None
        ok = isinstance(got, list) and len(got) == len(exp) and all(isinstance(g, tuple) and len(g) == 2 and g[0] == e_[0] and isinstance(g[1], P) and g[1] == e_[1] for g, e_ in zip(got, exp))
        ok = ok and ([r[0] for r in rec] == (['callback'] if cb is not None else [])) and all(len(r[1]) == 2 and _aname(r[1][0]) == 'yt' and _aname(r[1][1]) == 'yp' for r in rec)
        R.ob('C20.HISTORY', cp.qualname, 'accuracy=%s callback=%s prefix=%s -> %s' % (accb, 'given' if cb is not None else None, pref if not isinstance(pref, P) else '<p>', _showm(got)), ok,
             'metrics = [accuracy?] + [callback metrics?], every one of them renamed <prefix>_<name> when a prefix is given (a metric added after prefixing would be recorded under the train key)', cp.loc)
    # ---- compute(): epoch metrics of the accumulated values, then reset
    rec = []
    ch, cm = _ev_hooks(rec)
    outs = PE(model, atoms={'self.epoch_callback': None}, preds={'self.accuracy_bool': True}, call_hook=ch, compare_hook=cm, atoms_not_none=True).paths(comp, {'prefix': None})
    ok = len(outs) == 1 and outs[0].kind == 'return' and isinstance(outs[0].value, list) and len(outs[0].value) == 1 and isinstance(outs[0].value[0][1], P) and outs[0].value[0][1] == acc('self.y_true', 'self.y_pred')
    st = [k for o in outs for k, v, _ in o.stores]
    ok = ok and sorted(st) == ['self.y_pred', 'self.y_true']
    R.ob('C20.EVALUATOR', comp.qualname, 'compute() -> %s, resets %s' % ([_showm(o.value) for o in outs], sorted(st)), ok,
         'epoch metrics are computed from the accumulated labels / predictions (read before the reset) and both accumulators are cleared afterwards', comp.loc)


def _showm(v):
    if isinstance(v, P):
        return v.canon()
    if isinstance(v, (list, tuple)):
        return '[' + ', '.join(_showm(x) for x in v) + ']'
    return repr(v)
