"""C20 - Trainer.fit performs one optimisation step per batch in the right mode (orderings / regions of nn/utils/train.py)."""
import ast
from sa.core import norm, body_walk, dotted, names_in
from sa.cfg import CFG, facts_at
from sa.defuse import maybe_unbound
from sa.poly import P, TermBuilder, Unsupported
from sa.report import Incomplete
from sa import rules_engine as E
from sa.peval import PE, Opaque, FStr
from sa.poly import as_p
import itertools

TMOD = 'synapgrad.nn.utils.train'
TR = TMOD + '.Trainer'


def _calls(node, text):
    return [c for c in ast.walk(node) if isinstance(c, ast.Call) and norm(c.func) == text]


def _stmt_of(f, node):
    for s in ast.walk(f.node):
        if isinstance(s, ast.stmt) and not isinstance(s, (ast.If, ast.For, ast.While, ast.With, ast.Try, ast.FunctionDef)) and any(x is node for x in ast.walk(s)):
            return s


def batch_loop(f, loader_param):
    loops = [n for n in ast.walk(f.node) if isinstance(n, ast.For) and loader_param in names_in(n.iter)]
    if len(loops) != 1:
        raise Incomplete('%s: expected one loop over %s, found %d' % (f.qualname, loader_param, len(loops)))
    return loops[0]


def check(model, R, tier):
    R.rule('C20.STEP', 'per batch: zero_grad(), <loss of this batch>.backward(), optimizer.step() each exactly once, unconditionally, in that order; __train runs once per epoch', floor=4)
    R.rule('C20.TRAINMODE', 'model.train() dominates the batch loop of every epoch, with no eval() in between', floor=2)
    R.rule('C20.EVAL', 'validation and test run after model.eval(), entirely inside `with engine.no_grad()` (manager built in the header) and call no backward / optimizer / zero_grad / train()', floor=6)
    R.rule('C20.HISTORY', 'record_metrics runs once per epoch for train and iff a validation loader is given for validation; one value appended per key; val_ prefix; epoch loss = sum of batch losses / number of batches', floor=7)
    R.rule('C20.EVALUATOR', 'Evaluator mode dispatch is exhaustive with a raising fall-through; accuracy = correct / total; compute() resets the accumulators', floor=4)
    R.rule('C20.DEFASSIGN', 'names used after a loop are definitely assigned on every path (a loader with zero batches runs the loop zero times)', floor=2)
    fit = model.func(TR + '.fit')
    tr, va = _trainer_roles(model)
    te = model.func(TR + '.test')
    try:
        check_trainer(model, R)
    except Incomplete as u:
        R.incomplete_at('C20.STEP', TR, str(u))
    try:
        check_evaluator(model, R)
    except Incomplete as u:
        R.incomplete_at('C20.EVALUATOR', TMOD + '.Evaluator', str(u))
    # ---------------------------------------------------------------- DEFASSIGN
    # (findings are keyed by the ROLE of the method and of the variable, not by their private names: Trainer.__train / __validate are whatever fit calls)
    role = {id(tr): TR + '.__train', id(va): TR + '.__validate'}
    for f in (tr, va, te, fit):
        ub = maybe_unbound(f.node)
        seen = set()
        where = role.get(id(f), f.qualname)
        for name, st in ub:
            if (name,) in seen:
                continue
            seen.add((name,))
            loop_var = any(isinstance(n_, ast.For) and any(isinstance(x, ast.Name) and x.id == name for x in ast.walk(n_.target)) for n_ in ast.walk(f.node)) \
                and not any(isinstance(n_, (ast.Assign, ast.AugAssign)) and any(isinstance(x, ast.Name) and x.id == name and isinstance(x.ctx, ast.Store) for x in ast.walk(n_)) for n_ in ast.walk(f.node))
            what = 'loop variable of the batch loop' if loop_var else 'local `%s`' % name
            R.ob('C20.DEFASSIGN', where, '%s read after a loop that may run zero times' % what, False,
                 'local `%s` may be unbound here: a loader with zero batches (len(dataset) < batch_size) runs the loop zero times -> UnboundLocalError' % name, '%s:%d' % (f.mod.relpath, st.lineno))
        if not ub:
            R.ob('C20.DEFASSIGN', where, 'all locals definitely assigned', True, '', f.loc)
    return dict(
        explanation='Step counts and modes are orderings on the CFG of fit/__train/__validate/test. Decides: one zero_grad -> backward(loss of this batch) -> step per iteration, unconditionally and in order; '
                    'one __train per epoch; train mode dominating the batch loop; eval mode + no_grad region without any update call for validation/test; history bookkeeping (one entry per epoch per key, val_ prefix, '
                    'mean of batch losses); exhaustive evaluator mode dispatch; definite assignment of names used after loops. User callbacks are opaque.',
        assumptions=['model / optimizer / criterion follow the package\'s own APIs (C07, C08, C12, C13 cover their behaviour)'],
        technique='CFG dominance and region checks + call-site enumeration + definite-assignment dataflow + partial evaluation of the Evaluator')


# ------------------------------------------------------------------------------------------------ Evaluator on evaluated paths
def _aname(v):
    if isinstance(v, P) and len(v.t) == 1:
        (m, c), = v.t.items()
        if c == 1 and len(m) == 1 and m[0][1] == 1:
            return m[0][0]
    return None


def _ev_hooks(rec):
    A = P.atom

    def call_hook(pe, name, e, args, kw, env, func, depth):
        n = name or ''
        if isinstance(e.func, ast.Attribute) and e.func.attr in ('squeeze', 'detach', 'numpy', 'cpu', 'flatten') and not n.startswith('numpy.') and not args:
            return pe.expr(e.func.value, env, func, depth)
        if n == 'numpy.where' and len(args) == 3 and isinstance(args[0], P):
            return as_p(args[1]) * args[0] + as_p(args[2]) * (1 - args[0])
        if n == 'numpy.argmax' and args and _aname(args[0]):
            ax = kw.get('axis', args[1] if len(args) > 1 else None)
            return A('argmax%s(%s)' % (ax, _aname(args[0])))
        if n == 'numpy.concatenate' and args and isinstance(args[0], (list, tuple)):
            return ('concat',) + tuple(args[0])
        if isinstance(e.func, ast.Attribute) and e.func.attr in ('sum', 'mean') and not n.startswith(('numpy.', 'synapgrad')) and not args:
            v = pe.expr(e.func.value, env, func, depth)
            if _aname(v) and _aname(v).startswith('eq('):
                return A('%s(%s)' % (e.func.attr, _aname(v)))
        if isinstance(e.func, ast.Name) and _aname(env.get(e.func.id)) and 'callback' in _aname(env.get(e.func.id)):
            rec.append((_aname(env[e.func.id]), args))
            return [('cbm', A('cbv'))]
        if n in ('print', 'builtins.print'):
            return None
        return NotImplemented

    def compare_hook(pe, op, a, b):
        if isinstance(op, ast.Eq) and _aname(a) and _aname(b):
            return A('eq(%s)' % ','.join(sorted((_aname(a), _aname(b)))))
        if isinstance(op, (ast.Gt, ast.GtE)) and _aname(a) and isinstance(b, float):
            return A('gt%s(%s)' % (b, _aname(a)))
        return NotImplemented
    return call_hook, compare_hook


def check_evaluator(model, R):
    A = P.atom
    ev = model.cls(TMOD + '.Evaluator')
    consts = {}
    for n in ev.node.body:
        if isinstance(n, ast.Assign) and len(n.targets) == 1 and isinstance(n.targets[0], ast.Name) and isinstance(n.value, ast.Constant) and isinstance(n.value.value, str):
            consts[n.targets[0].id] = n.value.value
    if not {'BINARY', 'MULTI_CLASS', 'CATEGORICAL'} <= set(consts):
        raise Incomplete('Evaluator mode constants not found: %s' % sorted(consts))
    base = {'self.%s' % k: v for k, v in consts.items()}
    stp = model.func(TMOD + '.Evaluator.step')
    rep = model.func(TMOD + '.Evaluator.report')
    cp = _private_callee(model, stp, arg_count=3) or model.func(TMOD + '.Evaluator.__compute')
    comp = model.func(TMOD + '.Evaluator.compute')

    def acc(yt, yp):
        return A('sum(eq(%s))' % ','.join(sorted((yt, yp)))) / A('len(%s)' % yt)
    want = {'BINARY': ('labels', 'gt0.5(outputs)'), 'MULTI_CLASS': ('labels', 'argmax1(outputs)'), 'CATEGORICAL': ('argmax1(labels)', 'argmax1(outputs)')}
    # ---- step: per mode
    for mode in ('BINARY', 'MULTI_CLASS', 'CATEGORICAL', None):
        rec = []
        ch, cm = _ev_hooks(rec)
        atoms = dict(base, **{'self.mode': consts[mode] if mode else 'no-such-mode', 'self.step_callback': None})
        outs = PE(model, atoms=atoms, preds={'self.accuracy_bool': True}, call_hook=ch, compare_hook=cm, atoms_not_none=True).paths(stp, {'labels': A('labels'), 'outputs': A('outputs'), 'prefix': None})
        if mode is None:
            ok = bool(outs) and all(o.kind == 'raise' for o in outs) and not [s_ for o in outs for s_ in o.stores]
            R.ob('C20.EVALUATOR', stp.qualname, 'unknown mode -> %s' % [o.kind for o in outs], ok, 'an unknown label mode must be rejected (raise) before anything is accumulated, not silently treated as another mode', stp.loc)
            continue
        yt, yp = want[mode]
        ok = len(outs) == 1 and outs[0].kind == 'return' and isinstance(outs[0].value, list) and len(outs[0].value) == 1 and outs[0].value[0][0] == 'accuracy' \
            and isinstance(outs[0].value[0][1], P) and outs[0].value[0][1] == acc(yt, yp)
        if ok:
            st = {k: v for k, v, _ in outs[0].stores}
            ok = st.get('self.y_true') == ('concat', A('self.y_true'), A(yt)) and st.get('self.y_pred') == ('concat', A('self.y_pred'), A(yp))
        R.ob('C20.EVALUATOR', stp.qualname, 'mode %s -> %s' % (mode, [(o.kind, _showm(o.value)) for o in outs]), ok,
             'mode %s: predictions %s vs labels %s, accuracy = equal / total of THIS batch, both appended to the epoch accumulators' % (mode, yp, yt), stp.loc)
    for mode in ('BINARY', 'MULTI_CLASS', 'CATEGORICAL', None):
        rec = []
        ch, cm = _ev_hooks(rec)
        atoms = dict(base, **{'self.mode': consts[mode] if mode else 'no-such-mode'})
        outs = PE(model, atoms=atoms, call_hook=ch, compare_hook=cm, atoms_not_none=True, default_pred=lambda t: True if 'auc' in t else None).paths(rep, {p_: A(p_) for p_ in rep.pos_params[1:]})
        ok = bool(outs) and (all(o.kind == 'raise' for o in outs) if mode is None else all(o.kind != 'raise' for o in outs))
        R.ob('C20.EVALUATOR', rep.qualname, 'mode %s -> %s' % (mode or 'unknown', sorted({o.kind for o in outs})), ok, 'report accepts the three documented modes and rejects any other', rep.loc)
    # ---- __compute: which metrics, under which names
    for accb, cb, pref in itertools.product((True, False), (None, A('callback')), (None, A('prefix'), 'val')):
        rec = []
        ch, cm = _ev_hooks(rec)
        # the private helper's parameters by position: (labels, predictions, prefix, callback) - the callback may be keyword-only
        cps = cp.pos_params[1:] + [a_.arg for a_ in cp.node.args.kwonlyargs]
        if len(cps) < 4:
            raise Incomplete('%s: expected (labels, predictions, prefix, callback), found %s' % (cp.qualname, cps))
        outs = PE(model, preds={'self.accuracy_bool': accb}, call_hook=ch, compare_hook=cm, atoms_not_none=True).paths(cp, {cps[0]: A('yt'), cps[1]: A('yp'), cps[2]: pref, cps[3]: cb})
        exp = ([('accuracy', acc('yt', 'yp'))] if accb else []) + ([('cbm', A('cbv'))] if cb is not None else [])
        if pref is not None:
            exp = [(('val_' + k) if pref == 'val' else FStr([pref, '_' + k]), v) for k, v in exp]
        got = outs[0].value if len(outs) == 1 and outs[0].kind == 'return' else None
        ok = isinstance(got, list) and len(got) == len(exp) and all(isinstance(g, tuple) and len(g) == 2 and g[0] == e_[0] and isinstance(g[1], P) and g[1] == e_[1] for g, e_ in zip(got, exp))
        ok = ok and ([r[0] for r in rec] == (['callback'] if cb is not None else [])) and all(len(r[1]) == 2 and _aname(r[1][0]) == 'yt' and _aname(r[1][1]) == 'yp' for r in rec)
        R.ob('C20.HISTORY', cp.qualname, 'accuracy=%s callback=%s prefix=%s -> %s' % (accb, 'given' if cb is not None else None, pref if not isinstance(pref, P) else '<p>', _showm(got)), ok,
             'metrics = [accuracy?] + [callback metrics?], every one of them renamed <prefix>_<name> when a prefix is given (a metric added after prefixing would be recorded under the train key)', cp.loc)
    # ---- compute(): epoch metrics of the accumulated values, then reset
    rec = []
    ch, cm = _ev_hooks(rec)
    outs = PE(model, atoms={'self.epoch_callback': None}, preds={'self.accuracy_bool': True}, call_hook=ch, compare_hook=cm, atoms_not_none=True).paths(comp, {'prefix': None})
    ok = len(outs) == 1 and outs[0].kind == 'return' and isinstance(outs[0].value, list) and len(outs[0].value) == 1 and isinstance(outs[0].value[0][1], P) and outs[0].value[0][1] == acc('self.y_true', 'self.y_pred')
    st = [k for o in outs for k, v, _ in o.stores]
    ok = ok and sorted(st) == ['self.y_pred', 'self.y_true']
    R.ob('C20.EVALUATOR', comp.qualname, 'compute() -> %s, resets %s' % ([_showm(o.value) for o in outs], sorted(st)), ok,
         'epoch metrics are computed from the accumulated labels / predictions (read before the reset) and both accumulators are cleared afterwards', comp.loc)


def _showm(v):
    if isinstance(v, P):
        return v.canon()
    if isinstance(v, (list, tuple)):
        return '[' + ', '.join(_showm(x) for x in v) + ']'
    return repr(v)


# ------------------------------------------------------------------------------------------------ Trainer on evaluated traces
class _Obj:
    def __init__(self, t):
        self.text = self.loc_text = t

    def __repr__(self):
        return self.text


def _private_callee(model, caller, arg_name=None, arg_count=None, exclude=()):
    """the private method (self.__x / self._x) of the caller's class that `caller` calls with `arg_name` as its first argument (or with arg_count arguments):
    private method names are not API - the rules find the training / validation / metric helpers by the role they play"""
    cls = caller.cls
    hits = []
    for c in ast.walk(caller.node):
        if isinstance(c, ast.Call) and isinstance(c.func, ast.Attribute) and isinstance(c.func.value, ast.Name) and c.func.value.id == caller.pos_params[0] \
                and c.func.attr.startswith('_') and not c.func.attr.endswith('__'):
            names = [c.func.attr] + (['_%s%s' % (cls.name.lstrip('_'), c.func.attr)] if c.func.attr.startswith('__') else [])
            m = next((cls.methods[n] for n in names if n in cls.methods), None)
            if m is None or m.name in exclude:
                continue
            if arg_name is not None and not (c.args and isinstance(c.args[0], ast.Name) and c.args[0].id == arg_name):
                continue
            if arg_count is not None and len(c.args) + len(c.keywords) < arg_count:
                continue
            if m not in hits:
                hits.append(m)
    return hits[0] if len(hits) == 1 else None


def _self_call_texts(f):
    """the texts under which a call of method f on self appears in an evaluated trace"""
    n = f.name
    out = {'self.' + n}
    if n.startswith('__') and f.cls is not None:
        out.add('self._%s%s' % (f.cls.name.lstrip('_'), n))
    return out


def _trainer_roles(model):
    fit = model.func(TR + '.fit')
    tr = _private_callee(model, fit, arg_name=fit.pos_params[1]) or model.funcs.get(TR + '.__train')
    va = _private_callee(model, fit, arg_name='validation_loader') or model.funcs.get(TR + '.__validate')
    if tr is None or va is None:
        raise Incomplete('the private training / validation methods called by Trainer.fit were not found')
    return tr, va


def _trainer_pe(model, f, with_evaluator, extra_atoms=None):
    """evaluate a Trainer method; returns outcomes whose .calls is the ordered trace (kernel of the rules below)"""
    cnt = {'n': 0}

    def hook(pe, name, e, args, kw, env, func, depth):
        t = pe.calls[-1][0]
        if t in ('self.criterion', 'self.model'):
            cnt['n'] += 1
            return _Obj('%s#%d' % (t.split('.')[-1], cnt['n']))
        if isinstance(e.func, ast.Attribute) and e.func.attr in ('squeeze', 'item', 'detach', 'unsqueeze', 'flatten', 'reshape', 'float'):
            v = pe.expr(e.func.value, env, func, depth)
            if isinstance(v, _Obj):
                return P.atom('item(%s)' % v.text) if e.func.attr == 'item' else _Obj('%s(%s)' % (e.func.attr, v.text))
        if t in ('self.evaluator.step', 'self.evaluator.compute'):
            return [('m', P.atom('mv%d' % len(pe.calls)))]
        if (t or '').startswith('pkbar.') or (name or '').startswith('pkbar.'):
            return Opaque('kbar')
        return NotImplemented

    def loop_hook(pe, s, env):
        it = s.iter
        if isinstance(it, ast.Call) and norm(it.func) == 'enumerate' and isinstance(s.target, ast.Tuple) and len(s.target.elts) == 2 and isinstance(s.target.elts[0], ast.Name) and it.args:
            src = pe.loc_text(it.args[0], env, pe.curf, 0) if isinstance(it.args[0], (ast.Name, ast.Attribute)) else norm(it.args[0])
            env[s.target.elts[0].id] = P.atom('len(%s)' % src) - 1          # value of the index after the last of len(src) iterations
            pe.assign(s.target.elts[1], _Obj('batch(%s)' % src), env, pe.curf, 0, s)
            return True
        if isinstance(s.target, ast.Name) and isinstance(it, (ast.Name, ast.Attribute)):
            src = pe.loc_text(it, env, pe.curf, 0)
            env[s.target.id] = _Obj('batch(%s)' % src)
            return True
        return False
    atoms = dict(extra_atoms or {})
    if not with_evaluator:
        atoms['self.evaluator'] = None
    pe = PE(model, atoms=atoms, call_hook=hook, loop_hook=loop_hook, atoms_not_none=True, max_depth=4)
    pe.curf = f
    return pe


def _segments(calls):
    """-> list of (depth of enclosing loops, inside no_grad?, text, args, kw) for real calls, plus loop begin / end markers"""
    out, loops, withs = [], [], []
    for t, a, kw, node in calls:
        if t == '<loop-begin>':
            loops.append(a[1])
            out.append(('<loop>', tuple(loops), tuple(withs), a, kw))
        elif t == '<loop-end>':
            loops.pop()
        elif t == '<with-begin>':
            withs.append(tuple(a))
        elif t == '<with-end>':
            withs.pop()
        else:
            out.append((t, tuple(loops), tuple(withs), a, kw))
    return out


def check_trainer(model, R):
    fit = model.func(TR + '.fit')
    tr, va = _trainer_roles(model)
    TRN, VAN = _self_call_texts(tr), _self_call_texts(va)
    te = model.func(TR + '.test')
    A = P.atom
    # ---------------------------------------------------------------- __train : STEP / TRAINMODE / epoch loss
    for with_ev in (False, True):
        tag = 'with evaluator' if with_ev else 'without evaluator'
        pe = _trainer_pe(model, tr, with_ev)
        loader = tr.pos_params[1]
        outs = pe.paths(tr, {p_: A(p_) for p_ in tr.pos_params[1:]})
        rets_ = [o for o in outs if o.kind == 'return']
        if not rets_:
            R.incomplete_at('C20.STEP', tr.qualname, '[%s] no returning path: %s' % (tag, [(o.kind, o.conds[-2:]) for o in outs][:3]))
            continue
        for o in rets_:
            if len(rets_) > 1:
                tag = '%s, under %s' % (tag.split(', under')[0], [c for c in o.conds][-2:])
            seg = _segments(o.calls)
            inloop = [x for x in seg if x[1] and loader in x[1][0] and x[0] != '<loop>']
            names = [x[0] for x in inloop]
            zg = [i for i, n_ in enumerate(names) if n_ == 'self.optimizer.zero_grad']
            st = [i for i, n_ in enumerate(names) if n_ == 'self.optimizer.step']
            bw = [i for i, n_ in enumerate(names) if n_.endswith('.backward')]
            cr = [i for i, n_ in enumerate(names) if n_ == 'self.criterion']
            md = [i for i, n_ in enumerate(names) if n_ == 'self.model']
            nloops = len([x for x in seg if x[0] == '<loop>'])
            ok = len(zg) == len(st) == len(bw) == 1 and nloops == 1 and all(len(x[1]) == 1 for x in inloop if x[0] in ('self.optimizer.zero_grad', 'self.optimizer.step') or x[0].endswith('.backward'))
            R.ob('C20.STEP', tr.qualname, '[%s] per batch: zero_grad x%d, backward x%d, step x%d' % (tag, len(zg), len(bw), len(st)), ok, 'exactly one of each per batch, directly in the one batch loop', tr.loc)
            if ok:
                order = zg[0] < bw[0] < st[0]
                R.ob('C20.STEP', tr.qualname, '[%s] order %s' % (tag, [names[i] for i in sorted((zg[0], bw[0], st[0]))]), order,
                     'gradients must be cleared before backward and the step taken after it', tr.loc)
                okl = len(cr) == 1 and len(md) == 1 and md[0] < cr[0] < bw[0] and names[bw[0]].startswith('criterion#')
                if okl:
                    a = inloop[cr[0]][3]
                    okl = len(a) >= 2 and isinstance(a[0], _Obj) and 'model#' in a[0].text and 'batch(%s)' % loader in getattr(a[1], 'text', str(a[1])) \
                        and 'batch(%s)' % loader in ' '.join(getattr(x, 'text', str(x)) for x in inloop[md[0]][3])
                R.ob('C20.STEP', tr.qualname, '[%s] differentiated loss = %s(%s)' % (tag, names[bw[0]].rsplit('.', 1)[0], [repr(x) for x in inloop[cr[0]][3]][:2] if cr else None), bool(okl),
                     'the loss that is differentiated must be criterion(model(inputs), labels) of THIS batch', tr.loc)
            # train mode before the loop, no eval
            pre = [x[0] for x in seg if not x[1]]
            first_loop = [i for i, x in enumerate(seg) if x[0] == '<loop>']
            before = [x[0] for x in seg[:first_loop[0]]] if first_loop else []
            R.ob('C20.TRAINMODE', tr.qualname, '[%s] model.train() before the batch loop' % tag, 'self.model.train' in before and 'self.model.eval' not in [x[0] for x in seg], 'every update must be computed in training mode', tr.loc)
            # epoch loss
            v = o.value
            T_ = None
            if isinstance(v, list) and v and isinstance(v[0], tuple):
                T_ = v[0]
            want = A('item(%s)' % names[bw[0]].rsplit('.', 1)[0]) / A('len(%s)' % loader) if ok else None
            okm = T_ is not None and T_[0] == 'loss' and isinstance(T_[1], P) and want is not None and T_[1] == want
            R.ob('C20.HISTORY', tr.qualname, "[%s] epoch 'loss' = %s" % (tag, T_[1].canon() if T_ and isinstance(T_[1], P) else T_), okm,
                 "the reported epoch loss must be the sum of the per-batch losses divided by the number of batches, under the key 'loss' (first entry)", tr.loc)
            if with_ev:
                evs = [x for x in seg if x[0] in ('self.evaluator.step', 'self.evaluator.compute')]
                okp = all(x[4].get('prefix') is None and len(x[3]) <= (2 if x[0].endswith('step') else 0) for x in evs) and len([x for x in evs if x[0].endswith('compute')]) == 1 and not [x for x in evs if x[0].endswith('compute') and x[1]]
                R.ob('C20.HISTORY', tr.qualname, 'evaluator: step per batch without prefix, compute once after the loop', okp and isinstance(v, list) and len(v) == 2, 'training metrics are unprefixed; the epoch metrics are computed once after the last batch', tr.loc)
    # ---------------------------------------------------------------- __validate / test : EVAL
    for f in (va, te):
        for with_ev in (False, True):
            tag = 'with evaluator' if with_ev else 'without evaluator'
            pe = _trainer_pe(model, f, with_ev)
            loader = f.pos_params[1]
            try:
                outs = pe.paths(f, {p_: A(p_) for p_ in f.pos_params[1:]})
            except Incomplete as u:
                R.incomplete_at('C20.EVAL', f.qualname, str(u))
                continue
            rets = [o for o in outs if o.kind in ('return', 'fall')]
            if not rets:
                R.incomplete_at('C20.EVAL', f.qualname, 'no returning path')
                continue
            for o in rets[:1]:
                seg = _segments(o.calls)
                first_loop = [i for i, x in enumerate(seg) if x[0] == '<loop>' and loader in x[1][-1]]
                before = [x[0] for x in seg[:first_loop[0]]] if first_loop else []
                R.ob('C20.EVAL', f.qualname, '[%s] model.eval() before the loop' % tag, bool(first_loop) and 'self.model.eval' in before and 'self.model.train' not in [x[0] for x in seg], 'evaluation must run in eval mode', f.loc)
                lp = seg[first_loop[0]] if first_loop else None
                okw = lp is not None and any(any(w.replace(' ', '').endswith('.no_grad()') for w in ws) for ws in lp[2])
                R.ob('C20.EVAL', f.qualname, '[%s] loop inside with %s' % (tag, lp[2] if lp else None), bool(okw), 'evaluation must not track gradients; the manager must be built in the with header so that exit restores the mode', f.loc)
                bad = [x[0] for x in seg if x[0].endswith('.backward') or x[0].endswith('.zero_grad') or x[0] in ('self.optimizer.step', 'self.model.train') or (x[0].endswith('.step') and 'optimizer' in x[0])]
                R.ob('C20.EVAL', f.qualname, '[%s] no update calls in evaluation: %s' % (tag, bad), not bad, 'validation / test must not change parameters or mode', f.loc)
                if f is va:
                    v = o.value
                    T_ = v[0] if isinstance(v, list) and v and isinstance(v[0], tuple) else None
                    crit = [x for x in seg if x[0] == 'self.criterion']
                    want = A('item(criterion#%s)' % (seg.index(crit[0]) and 0 or 0)) if False else None
                    items = [x for x in seg if x[0].endswith('.item') and x[0].startswith('criterion#')]
                    okm = T_ is not None and T_[0] == 'val_loss' and isinstance(T_[1], P) and bool(items) and T_[1] == A('item(%s)' % items[0][0].rsplit('.', 1)[0]) / A('len(%s)' % loader)
                    R.ob('C20.HISTORY', f.qualname, "[%s] epoch 'val_loss' = %s" % (tag, T_[1].canon() if T_ and isinstance(T_[1], P) else T_), okm,
                         "the reported validation loss must be the sum of the per-batch losses divided by the number of batches, under the key 'val_loss' (first entry)", f.loc)
                    if with_ev:
                        estep = model.func(TMOD + '.Evaluator.step').pos_params[1:]
                        ecomp = model.func(TMOD + '.Evaluator.compute').pos_params[1:]
                        evs = [x for x in seg if x[0] in ('self.evaluator.step', 'self.evaluator.compute')]
                        def prefix_of(x):
                            ps = estep if x[0].endswith('step') else ecomp
                            b = dict(zip(ps, x[3]))
                            b.update(x[4])
                            return b.get('prefix')
                        okp = bool(evs) and all(prefix_of(x) == 'val' for x in evs)
                        R.ob('C20.HISTORY', f.qualname, "evaluator called with prefix='val' (%d calls)" % len(evs), okp, 'validation metrics must carry the val_ prefix', f.loc)
    # ---------------------------------------------------------------- fit: the history after two concrete epochs (whatever helper / closure / inline form records it)
    for has_val in (True, False):
        tag = 'validation loader given' if has_val else 'no validation loader'
        pe = _trainer_pe(model, fit, False)
        base_hook = pe.call_hook
        cnt = {'t': 0, 'v': 0}

        def hook2(pe_, name, e, args, kw, env, func, depth, base_hook=base_hook, cnt=cnt):
            t = pe_.calls[-1][0]
            if t in TRN:
                cnt['t'] += 1
                return [('loss', A('tl%d' % cnt['t'])), ('tm', A('tm%d' % cnt['t']))]
            if t in VAN:
                cnt['v'] += 1
                return [('val_loss', A('vl%d' % cnt['v'])), ('vm', A('vm%d' % cnt['v']))]
            return base_hook(pe_, name, e, args, kw, env, func, depth)
        pe.call_hook = hook2
        pe.default_pred = lambda t: True if ('issubdtype' in t or 'isinstance' in t) else None
        args = {p_: A(p_) for p_ in fit.pos_params[1:]}
        args['epochs'] = 2
        args['validation_loader'] = A('validation_loader') if has_val else None
        args['on_train_epoch'] = None
        args['on_validation_epoch'] = None
        bad = []
        try:
            outs2 = pe.paths(fit, args, max_paths=64)
        except Incomplete as u:
            R.incomplete_at('C20.HISTORY', fit.qualname, str(u))
            continue
        n_paths = 0
        for o in outs2:
            if o.kind != 'return':
                bad.append('path ends in %s' % o.kind)
                continue
            n_paths += 1
            k0 = n_paths * 2 - 1
            tl = [c for c in o.calls if c[0] in TRN]
            vl = [c for c in o.calls if c[0] in VAN]
            if not isinstance(o.value, dict):
                bad.append('returned %r' % (o.value,))
                continue
            # the atoms handed out on this path, in call order
            got = {k: [x.canon() if isinstance(x, P) else repr(x) for x in v] if isinstance(v, list) else repr(v) for k, v in o.value.items()}
            def seq(prefix, calls):
                return None
            want_keys = ['loss', 'tm'] + (['val_loss', 'vm'] if has_val else [])
            if sorted(got) != sorted(want_keys) or len(tl) != 2 or len(vl) != (2 if has_val else 0):
                bad.append('history keys %s after 2 epochs (%d train / %d validation passes)' % (sorted(got), len(tl), len(vl)))
                continue
            for k_ in want_keys:
                v = got[k_]
                stem = {'loss': 'tl', 'tm': 'tm', 'val_loss': 'vl', 'vm': 'vm'}[k_]
                if not (isinstance(v, list) and len(v) == 2 and all(isinstance(x, str) and x.startswith(stem) for x in v) and len(set(v)) == 2 and sorted(v, key=lambda x: int(x[2:])) == v):
                    bad.append("history[%r] = %s after 2 epochs" % (k_, v))
            hs = [(k, v) for k, v, st_ in o.stores if k == 'self.history']
            if not (len(hs) == 1 and hs[0][1] is o.value):
                bad.append('self.history bound %d time(s); the returned object is %s' % (len(hs), 'the recorded history' if hs and hs[0][1] is o.value else 'another object'))
        R.ob('C20.HISTORY', fit.qualname, '[%s] history after 2 epochs: one entry per epoch for every metric, in epoch order; history = {} once, returned' % tag, not bad and n_paths > 0,
             'every recorded metric must add exactly one history entry per epoch (append to the existing list | create a one-element list) and fit returns that history: %s' % bad[:2], fit.loc)
    # ---------------------------------------------------------------- fit: one __train per epoch, record_metrics calls, history bookkeeping
    for has_val in (True, False):
        tag = 'validation loader given' if has_val else 'no validation loader'
        pe = _trainer_pe(model, fit, False)
        args = {p_: A(p_) for p_ in fit.pos_params[1:]}
        args['validation_loader'] = A('validation_loader') if has_val else None
        args['on_train_epoch'] = None
        args['on_validation_epoch'] = None
        try:
            outs = pe.paths(fit, args, max_paths=64)
        except Incomplete as u:
            R.incomplete_at('C20.STEP', fit.qualname, str(u))
            continue
        rets = [o for o in outs if o.kind == 'return']
        if not rets:
            R.incomplete_at('C20.STEP', fit.qualname, '[%s] no returning path' % tag)
            continue
        bad_step, bad_hist, bad_mode = [], [], []
        for o in rets:
            seg = _segments(o.calls)
            epoch = [x for x in seg if x[0] == '<loop>' and 'epochs' in x[1][-1] and len(x[1]) == 1]
            trains = [x for x in seg if x[0] in TRN]
            vals = [x for x in seg if x[0] in VAN]
            recs = [x for x in seg if x[0] == 'record_metrics']
            if not (len(epoch) == 1 and len(trains) == 1 and len(trains[0][1]) == 1 and 'epochs' in trains[0][1][0] and _aname(trains[0][3][0]) == fit.pos_params[1]):
                bad_step.append('__train calls %s' % [(x[0], x[1]) for x in trains])
            if len(vals) != (1 if has_val else 0):
                bad_hist.append('validation passes per epoch: %d' % len(vals))
            # train mode at the start of every epoch (validation leaves the model in eval mode)
            ep_calls = [x[0] for x in seg if x[1] and 'epochs' in x[1][0]]
            if 'self.model.train' not in ep_calls or ('self.optimizer.zero_grad' in ep_calls and ep_calls.index('self.model.train') > ep_calls.index('self.optimizer.zero_grad')):
                bad_mode.append('calls in the epoch: %s' % ep_calls[:6])
        R.ob('C20.STEP', fit.qualname, '[%s] __train(train_loader) once per epoch' % tag, not bad_step, 'updates = epochs x len(train_loader) needs exactly one unconditional __train(train_loader) per epoch: %s' % bad_step[:1], fit.loc)
        R.ob('C20.TRAINMODE', fit.qualname, '[%s] model.train() at the start of every epoch' % tag, not bad_mode, 'validation leaves the model in eval mode: each epoch must switch back: %s' % bad_mode[:1], fit.loc)
        R.ob('C20.HISTORY', fit.qualname, '[%s] one validation pass per epoch iff a validation loader is given' % tag, not bad_hist,
             'validation metrics are recorded once per epoch exactly when a validation loader is given: %s' % bad_hist[:1], fit.loc)
