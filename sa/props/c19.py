"""C19 - reproducible under manual_seed, independent of hash order (source discipline: where randomness and ordering come from)."""
import ast
from sa.core import norm, body_walk, dotted, names_in
from sa.cfg import CFG, facts_at
from sa.report import Incomplete

GLOBAL_NP = {'rand', 'randn', 'normal', 'randint', 'uniform', 'shuffle', 'permutation', 'choice', 'random', 'standard_normal', 'binomial', 'random_sample', 'exponential', 'beta', 'gamma', 'poisson'}
GLOBAL_PY = {'random', 'shuffle', 'randint', 'choice', 'uniform', 'gauss', 'sample', 'randrange', 'normalvariate', 'choices', 'getrandbits'}
UNSEEDED = ('numpy.random.default_rng', 'numpy.random.Generator', 'numpy.random.RandomState', 'numpy.random.SeedSequence', 'numpy.random.PCG64', 'numpy.random.MT19937', 'numpy.random.Philox',
            'random.Random', 'random.SystemRandom', 'os.urandom', 'secrets.', 'uuid.', 'time.', 'datetime.')
FLOOR_DRAWS = 8


def _call_local_classes(model):
    """private helper classes (class _Name) every instantiation of which is bound to a plain local name inside a function: their attributes live and die with the call"""
    out = set()
    for q, c in model.classes.items():
        nm = q.rsplit('.', 1)[-1]
        if not nm.startswith('_') or nm.startswith('__'):
            continue
        ok, n = True, 0
        for mod in model.modules.values():
            parents = {}
            for x in ast.walk(mod.tree):
                for ch in ast.iter_child_nodes(x):
                    parents[id(ch)] = x
            for x in ast.walk(mod.tree):
                if isinstance(x, ast.Call) and model.resolve(mod, x.func) == q:
                    n += 1
                    par = parents.get(id(x))
                    if not (isinstance(par, ast.Assign) and len(par.targets) == 1 and isinstance(par.targets[0], ast.Name)):
                        ok = False
                        continue
                    g = parents.get(id(par))
                    while g is not None and not isinstance(g, (ast.FunctionDef, ast.Module, ast.ClassDef)):
                        g = parents.get(id(g))
                    if not isinstance(g, ast.FunctionDef):
                        ok = False
                        continue
                    name = par.targets[0].id
                    # the instance does not escape: not returned, not stored in an attribute / container, not passed on
                    for y in ast.walk(g):
                        if isinstance(y, ast.Return) and y.value is not None and any(isinstance(z, ast.Name) and z.id == name for z in ast.walk(y.value)):
                            ok = False
                        if isinstance(y, ast.Assign) and any(isinstance(t, (ast.Attribute, ast.Subscript)) for t in y.targets) and any(isinstance(z, ast.Name) and z.id == name for z in ast.walk(y.value)):
                            ok = False
        if ok and n:
            out.add(q)
    return out


def _addr_use_ok(c, p, local=None):
    """an address (id()/hash() result) may only be tested for membership in / added to / used as a key of a container that is LOCAL to the call:
    an address-keyed attribute or global outlives the objects, and CPython re-uses addresses of dead objects (history-dependent results)"""
    def loc(e):
        if isinstance(e, ast.Attribute) and isinstance(e.value, ast.Name) and local is not None and ('self.*' in local) and e.value.id == 'self':
            return True     # attribute of an instance of a private helper class that never leaves the call that created it
        return local is None or (isinstance(e, ast.Name) and e.id in local)
    if isinstance(p, ast.Compare) and all(isinstance(o, (ast.In, ast.NotIn)) for o in p.ops) and p.left is c:
        return all(loc(x) for x in p.comparators)
    if isinstance(p, ast.Compare) and all(isinstance(o, (ast.Eq, ast.NotEq, ast.Is, ast.IsNot)) for o in p.ops):
        return True
    if isinstance(p, ast.Call) and isinstance(p.func, ast.Attribute) and p.func.attr in ('add', 'discard', 'remove') and c in p.args:
        return loc(p.func.value)
    if isinstance(p, ast.Subscript) and p.slice is c:
        return loc(p.value)       # id-keyed lookup in a local dict
    if isinstance(p, ast.Call) and isinstance(p.func, ast.Attribute) and p.func.attr in ('setdefault', 'get', 'pop', '__contains__', '__getitem__') and p.args and p.args[0] is c:
        return loc(p.func.value)  # the address is the KEY of a call-local dict (identity de-duplication: by_id.setdefault(id(p), p))
    return False


def _locals(fn):
    a = fn.node.args
    params = {x.arg for x in a.posonlyargs + a.args + a.kwonlyargs}
    out = set()
    for n in ast.walk(fn.node):
        if isinstance(n, ast.Assign):
            for t in n.targets:
                if isinstance(t, ast.Name) and isinstance(n.value, (ast.Set, ast.Dict, ast.List, ast.Call)) and (not isinstance(n.value, ast.Call) or dotted(n.value.func) in ('set', 'dict', 'list', 'collections.OrderedDict', 'OrderedDict')):
                    out.add(t.id)
    return out - params


def check(model, R, tier):
    R.rule('C19.SEED', 'manual_seed seeds every generator family the package draws from (NumPy global state and Python random) with its argument, unconditionally', floor=2)
    R.rule('C19.SOURCE', 'every random draw in the package is a call on the seeded global generators (np.random.<legacy fn> / random.<fn>); no unseeded generator object, OS entropy, uuid or clock', floor=FLOOR_DRAWS)
    R.rule('C19.ORDER', 'no iteration (for / comprehension / list() / sum() / sorted() / tuple()) over a hash-ordered container built in the package; sets are used for membership only', floor=1)
    R.rule('C19.NOADDR', 'id() / hash() results are used only for identity membership tests against containers local to the call, never as data, ordering keys, seeds or keys of state that outlives the call', floor=1)
    ms = model.func('synapgrad.utils.manual_seed')
    arg = ms.pos_params[0]
    cfg = CFG(ms.node)
    seeds = {}
    for n in body_walk(ms.node):
        if isinstance(n, ast.Expr) and isinstance(n.value, ast.Call):
            d = model.resolve(ms.mod, n.value.func)
            if d in ('numpy.random.seed', 'random.seed'):
                seeds[d] = (n, [norm(a) for a in n.value.args], cfg.conditions(n))
    families = set()
    draws = []
    for fn in model.live_funcs():
        if fn.parent is not None and fn.parent.qualname.startswith('synapgrad.visual'):
            continue
        fcfg = None
        for c in body_walk(fn.node):
            if not isinstance(c, ast.Call):
                continue
            d = model.resolve(fn.mod, c.func)
            if not d:
                continue
            if d.startswith('numpy.random.') or d.startswith('random.') or d.startswith(UNSEEDED):
                if d in ('numpy.random.seed', 'random.seed'):
                    continue
                fcfg = fcfg or CFG(fn.node)
                st = next((s for s in fcfg.all_stmts() if not isinstance(s, (ast.If, ast.For, ast.While, ast.With, ast.Try)) and any(z is c for z in ast.walk(s))), None)
                reachable = st is not None and fcfg.reachable(st)
                draws.append((fn, c, d, reachable))
    n_reach = 0
    for fn, c, d, reachable in draws:
        if not reachable:
            R.note('dead random call (after return) %s in %s' % (norm(c)[:60], fn.qualname))
            continue
        n_reach += 1
        tail = d.split('.')[-1]
        ok = (d.startswith('numpy.random.') and tail in GLOBAL_NP and d.count('.') == 2) or (d.startswith('random.') and tail in GLOBAL_PY and d.count('.') == 1)
        if ok:
            families.add('numpy' if d.startswith('numpy') else 'python')
        R.ob('C19.SOURCE', fn.qualname, norm(c)[:80], ok, 'randomness must come from the global generators that manual_seed seeds; %s bypasses them' % d, '%s:%d' % (fn.mod.relpath, c.lineno))
    R.analysed['draw_sites'] = n_reach
    for fam, d in (('numpy', 'numpy.random.seed'), ('python', 'random.seed')):
        s = seeds.get(d)
        ok = s is not None and s[1] == [arg] and not s[2]
        need = fam in families or fam == 'python'
        R.ob('C19.SEED', ms.qualname, '%s(%s)' % (d, s[1] if s else None), ok or not need, 'manual_seed must seed the %s generator with its argument, unconditionally' % fam, ms.loc)
    # ---------------------------------------------------------------- ORDER
    n_sets = 0
    for fn in model.live_funcs():
        if fn.mod.modname.startswith('synapgrad.visual'):
            continue
        setnames = set()
        for n in body_walk(fn.node):
            if isinstance(n, ast.Assign) and isinstance(n.targets[0], ast.Name):
                v = n.value
                if isinstance(v, (ast.Set, ast.SetComp)) or (isinstance(v, ast.Call) and dotted(v.func) in ('set', 'frozenset')):
                    setnames.add(n.targets[0].id)
        # enclosing function's sets are visible in closures
        k = fn.parent
        while k is not None:
            for n in body_walk(k.node):
                if isinstance(n, ast.Assign) and isinstance(n.targets[0], ast.Name) and (isinstance(n.value, (ast.Set, ast.SetComp)) or (isinstance(n.value, ast.Call) and dotted(n.value.func) in ('set', 'frozenset'))):
                    setnames.add(n.targets[0].id)
            k = k.parent
        def is_setexpr(e):
            return (isinstance(e, ast.Name) and e.id in setnames) or isinstance(e, (ast.Set, ast.SetComp)) or (isinstance(e, ast.Call) and dotted(e.func) in ('set', 'frozenset'))
        for n in body_walk(fn.node):
            its = []
            if isinstance(n, ast.For):
                its.append(n.iter)
            if isinstance(n, (ast.ListComp, ast.GeneratorExp, ast.DictComp, ast.SetComp)):
                its += [g.iter for g in n.generators]
            if isinstance(n, ast.Call) and dotted(n.func) in ('list', 'tuple', 'sum', 'sorted', 'enumerate', 'zip', 'iter', 'next', 'map', 'reversed', 'max', 'min') and n.args:
                its += list(n.args)
            if isinstance(n, ast.Starred):
                its.append(n.value)
            for it in its:
                if is_setexpr(it):
                    R.ob('C19.ORDER', fn.qualname, norm(n)[:80], False, 'iteration order of a set of identity-hashed objects depends on addresses / hash seed: results (e.g. floating-point summation order) would differ between runs', '%s:%d' % (fn.mod.relpath, n.lineno))
        for s in sorted(setnames):
            if any(isinstance(n, ast.Assign) and isinstance(n.targets[0], ast.Name) and n.targets[0].id == s for n in body_walk(fn.node)):
                n_sets += 1
                R.ob('C19.ORDER', fn.qualname, 'set %s used for membership / add only' % s, True, '', fn.loc)
    # the sweep order of backward comes from a list
    from sa import rules_engine as E
    B = E.BackwardInfo(model)
    binds = [n for n in body_walk(B.f.node) if isinstance(n, ast.Assign) and isinstance(n.targets[0], ast.Name) and n.targets[0].id == B.order]
    ok = len(binds) == 1 and norm(binds[0].value) in ('[]', 'list()')
    R.ob('C19.ORDER', B.f.qualname, 'sweep order container %s = %s' % (B.order, norm(binds[0].value) if binds else None), ok, 'the backward order must come from an ordered list, not from the visited set', B.f.loc)
    mp = model.func('synapgrad.nn.modules.Module.__init__')
    check_uninit(model, R)
    # ---------------------------------------------------------------- NOADDR
    n_id = 0
    call_local = _call_local_classes(model)
    def _locals(fn_, _base=globals()['_locals']):
        base = set(_base(fn_))
        if fn_.cls is not None and fn_.cls.qualname in call_local:
            base.add('self.*')
        return base
    for fn in model.live_funcs():
        if fn.mod.modname.startswith('synapgrad.visual'):
            continue
        parents = {}
        for n in ast.walk(fn.node):
            for ch in ast.iter_child_nodes(n):
                parents[id(ch)] = n
        for c in ast.walk(fn.node):
            if fn.parent is None and isinstance(c, ast.Call) and dotted(c.func) in ('id', 'hash'):
                n_id += 1
                p = parents.get(id(c))
                ok = False
                uses = [(c, p)]
                if isinstance(p, ast.Assign) and len(p.targets) == 1 and isinstance(p.targets[0], ast.Name) and p.value is c:
                    # a temporary holding the address: every load of it is judged like the call itself
                    t = p.targets[0].id
                    uses = [(u, parents.get(id(u))) for u in ast.walk(fn.node) if isinstance(u, ast.Name) and u.id == t and isinstance(u.ctx, ast.Load)]
                    stores = [u for u in ast.walk(fn.node) if isinstance(u, ast.Name) and u.id == t and isinstance(u.ctx, ast.Store)]
                    if len(stores) == 1 and uses and all(_addr_use_ok(u, q, _locals(fn)) for u, q in uses):
                        ok = True
                    R.ob('C19.NOADDR', fn.qualname, norm(p)[:80], ok, 'an object address / hash flows into a value: results would depend on the allocation layout', '%s:%d' % (fn.mod.relpath, c.lineno))
                    continue
                if _addr_use_ok(c, p, _locals(fn)):
                    ok = True
                if False and isinstance(p, ast.Compare) and all(isinstance(o, (ast.In, ast.NotIn, ast.Eq, ast.NotEq, ast.Is, ast.IsNot)) for o in p.ops):
                    ok = True
                if isinstance(p, ast.Call) and isinstance(p.func, ast.Attribute) and p.func.attr in ('add', 'discard', 'remove') and c in p.args:
                    ok = True
                if isinstance(p, ast.Subscript) and p.slice is c:
                    ok = True       # id-keyed dict lookup
                if isinstance(p, ast.DictComp) and p.key is c:
                    # {id(x): x for x in seq}: first-occurrence de-duplication in insertion order - fine while the keys themselves never come out again
                    q = parents.get(id(p))
                    if isinstance(q, ast.Assign) and len(q.targets) == 1 and isinstance(q.targets[0], ast.Name) and q.value is p:
                        d_ = q.targets[0].id
                        lds = [u for u in ast.walk(fn.node) if isinstance(u, ast.Name) and u.id == d_ and isinstance(u.ctx, ast.Load)]
                        def _value_use(u):
                            pu = parents.get(id(u))
                            gu = parents.get(id(pu)) if pu is not None else None
                            if isinstance(pu, ast.Attribute) and pu.attr == 'values' and isinstance(gu, ast.Call) and gu.func is pu:
                                return True
                            if isinstance(pu, ast.Call) and dotted(pu.func) == 'len':
                                return True
                            if isinstance(pu, ast.Compare) and u in pu.comparators and all(isinstance(o, (ast.In, ast.NotIn)) for o in pu.ops):
                                return True
                            return isinstance(pu, ast.Subscript) and pu.value is u
                        stores_ = [u for u in ast.walk(fn.node) if isinstance(u, ast.Name) and u.id == d_ and isinstance(u.ctx, ast.Store)]
                        ok = len(stores_) == 1 and bool(lds) and all(_value_use(u) for u in lds)
                    elif isinstance(q, ast.Attribute) and q.attr == 'values' and q.value is p:
                        ok = True
                R.ob('C19.NOADDR', fn.qualname, norm(p)[:80] if p is not None else norm(c), ok, 'an object address / hash flows into a value: results would depend on the allocation layout', '%s:%d' % (fn.mod.relpath, c.lineno))
    if n_id == 0:
        R.ob('C19.NOADDR', 'synapgrad', 'no id()/hash() call outside visual/', True, '', '')
    return dict(
        explanation='Bit-identical results also depend on NumPy/BLAS; decided is the part the repository controls: manual_seed seeds both global generators; every reachable random draw of the package '
                    '(%d sites) goes through those global generators (no Generator/RandomState objects, OS entropy, uuid, clock); no iteration over a hash-ordered set anywhere on the numeric code; the backward '
                    'sweep order comes from a list; id()/hash() values are used for membership only.' % n_reach,
        assumptions=['NumPy legacy global RNG and Python random are deterministic functions of their seed', 'visual/graph.py (drawing) is off the numeric call graph'],
        technique='who-may-call scan over resolved callees + local type inference of set-valued names + taint of id()/hash() + partial evaluation of constructors (uninitialised storage)')


# ------------------------------------------------------------------------------------------------ UNINIT
class _Empty:
    n = 0

    def __init__(self, where):
        _Empty.n += 1
        self.where = where
        self.text = self.loc_text = 'empty#%d' % _Empty.n

    def __repr__(self):
        return self.text


from sa.poly import P


def check_uninit(model, R):
    """memory obtained from empty() (uninitialised: whatever the allocator recycles) must be filled on EVERY path before it becomes state of an object:
    evaluated by partial evaluation of every function that allocates with empty(), over all paths of its flags"""
    from sa.peval import PE
    EMPTY = {'synapgrad.tensor.empty', 'synapgrad.empty', 'numpy.empty', 'numpy.empty_like'}
    users = []
    for fn in model.live_funcs():
        if fn.mod.modname.startswith('synapgrad.visual') or fn.qualname in ('synapgrad.tensor.empty',) or fn.parent is not None:
            continue
        if any(isinstance(c, ast.Call) and (model.resolve(fn.mod, c.func) in EMPTY) for c in ast.walk(fn.node)):
            users.append(fn)
    R.rule('C19.UNINIT', 'storage allocated with empty() is filled (an nn.init filler, or a whole-array store) on every path before the allocating function ends: '
                         'otherwise recycled allocator memory becomes parameter / buffer state and results differ between runs', floor=max(1, len(users)))
    for fn in users:
        def call_hook(pe, name, e, args, kw, env, func, depth, fn=fn):
            n = name or ''
            if n in EMPTY:
                o = _Empty('%s:%d' % (func.mod.relpath, e.lineno))
                pe.user.setdefault('empties', []).append(o)
                return o
            if n.endswith('.Parameter') and args and isinstance(args[0], _Empty):
                return args[0]
            if n.startswith('synapgrad.nn.init.') and n.endswith('_') and not n.rsplit('.', 1)[1].startswith('_') and args:
                if isinstance(args[0], _Empty):
                    pe.user.setdefault('filled', set()).add(args[0].text)
                return args[0]
            if isinstance(e.func, ast.Attribute) and e.func.attr in ('fill_', 'zero_', 'fill', 'copy_from', 'copy_'):
                v = pe.expr(e.func.value, env, func, depth)
                if isinstance(v, _Empty):
                    pe.user.setdefault('filled', set()).add(v.text)
                    return v
            return NotImplemented
        try:
            outs = PE(model, call_hook=call_hook, atoms_not_none=True, max_depth=4).paths(fn, {p_: P.atom(p_) for p_ in fn.pos_params[1:] if p_ != 'self'}, max_paths=256)
        except Incomplete as u:
            R.incomplete_at('C19.UNINIT', fn.qualname, str(u))
            continue
        bad = []
        n_emp = 0
        for o in outs:
            if o.kind == 'raise':
                continue
            filled = set(o.user.get('filled', set()))
            for key, v, st in o.stores:
                if isinstance(v, _Empty):
                    pass
                # a whole-array store into the data of an empty tensor initialises it
                for e_ in o.user.get('empties', []):
                    if key.startswith(e_.text + '.data') or key == e_.text + '.data':
                        filled.add(e_.text)
            kept = {v.text: key for key, v, st in o.stores if isinstance(v, _Empty)}
            if isinstance(o.value, _Empty):
                kept[o.value.text] = '<returned>'
            for e_ in o.user.get('empties', []):
                n_emp += 1
                if e_.text in kept and e_.text not in filled:
                    bad.append('%s allocated at %s stays uninitialised under %s' % (kept[e_.text], e_.where, [c for c in o.conds][-4:]))
        R.ob('C19.UNINIT', fn.qualname, '%d empty() allocation(s) over %d path(s): all filled before the function ends' % (n_emp, len(outs)), not bad,
             'uninitialised memory becomes state: %s' % sorted(set(bad))[:2], fn.loc)
