"""C12 - module trees report each parameter once and propagate mode to all descendants."""
import ast
from sa.core import norm, body_walk, dotted, names_in, inline_expr
from sa.cfg import CFG, facts_at
from sa.defuse import maybe_unbound
from sa.report import Incomplete
from sa.peval import PE
import re

MMOD = 'synapgrad.nn.modules'
MOD = MMOD + '.Module'
REGS = ('_parameters', '_submodules')


def registry_effects(model, f, stmts, depth=0):
    """effects of a statement list on the registries: set of (registry, 'set'|'pop'), following self.register_* calls.
    Recognised: self.<reg>[k] = v ; self.<reg>.pop(k, ..) ; del self.<reg>[k] ; self.__dict__['<reg>'] / self.__dict__[var] with var ranging over a literal tuple"""
    eff = set()

    def reg_of(e, binding):
        # self._parameters | self.__dict__['_parameters'] | self.__dict__[var] | getattr(self, var)
        if isinstance(e, ast.Attribute) and isinstance(e.value, ast.Name) and e.value.id == 'self' and e.attr in REGS:
            return [e.attr]
        if isinstance(e, ast.Subscript) and norm(e.value) == 'self.__dict__':
            k = e.slice
            if isinstance(k, ast.Constant) and k.value in REGS:
                return [k.value]
            if isinstance(k, ast.Name) and k.id in binding:
                return [x for x in binding[k.id] if x in REGS]
        if isinstance(e, ast.Call) and dotted(e.func) == 'getattr' and len(e.args) >= 2 and norm(e.args[0]) == 'self':
            k = e.args[1]
            if isinstance(k, ast.Constant) and k.value in REGS:
                return [k.value]
            if isinstance(k, ast.Name) and k.id in binding:
                return [x for x in binding[k.id] if x in REGS]
        return []

    def walk(stmts, binding):
        for s in stmts:
            if isinstance(s, ast.For) and isinstance(s.iter, (ast.Tuple, ast.List)) and all(isinstance(x, ast.Constant) for x in s.iter.elts) and isinstance(s.target, ast.Name):
                b = dict(binding)
                b[s.target.id] = [x.value for x in s.iter.elts]
                walk(s.body, b)
                continue
            if isinstance(s, (ast.If,)):
                walk(s.body, binding)
                walk(s.orelse, binding)
                continue
            if isinstance(s, (ast.For, ast.While, ast.With, ast.Try)):
                for fld in ('body', 'orelse', 'finalbody'):
                    walk(getattr(s, fld, []) or [], binding)
                continue
            for n in ast.walk(s):
                if isinstance(n, ast.Assign):
                    for t in n.targets:
                        if isinstance(t, ast.Subscript):
                            for r in reg_of(t.value, binding):
                                eff.add((r, 'set'))
                if isinstance(n, ast.Delete):
                    for t in n.targets:
                        if isinstance(t, ast.Subscript):
                            for r in reg_of(t.value, binding):
                                eff.add((r, 'pop'))
                if isinstance(n, ast.Call) and isinstance(n.func, ast.Attribute):
                    if n.func.attr in ('pop', 'popitem', 'clear'):
                        for r in reg_of(n.func.value, binding):
                            eff.add((r, 'pop'))
                    if n.func.attr in ('__setitem__', 'update', 'setdefault'):
                        for r in reg_of(n.func.value, binding):
                            eff.add((r, 'set'))
                    if isinstance(n.func.value, ast.Name) and n.func.value.id == 'self' and depth < 3:
                        callee = model.funcs.get('%s.%s' % (MOD, n.func.attr))
                        if callee is not None and n.func.attr.startswith('register_'):
                            eff.update(registry_effects(model, callee, callee.node.body, depth + 1))
    walk(stmts, {})
    return eff


_REG = re.compile(r"^self\.(?:__dict__\[')?(_parameters|_submodules)(?:'\])?(\[|\.|$)")


def pe_effects(o):
    """registry effects along one evaluated path: stores self.<reg>[k] = v -> set ; .pop/.popitem/.clear/del -> pop ; update/setdefault/__setitem__ -> set"""
    eff = set()
    for key, v, st in o.stores:
        m = _REG.match(key)
        if m and m.group(2) == '[':
            eff.add((m.group(1), 'set'))
        elif m and m.group(2) == '':
            eff.add((m.group(1), 'rebind'))
    for ctext, args, kw, node in o.calls:
        if ctext == 'del':
            m = _REG.match(args[0])
            if m and m.group(2) == '[':
                eff.add((m.group(1), 'pop'))
            continue
        m = _REG.match(ctext)
        if m and m.group(2) == '.':
            meth = ctext[m.end():]
            if meth in ('pop', 'popitem', 'clear'):
                eff.add((m.group(1), 'pop'))
            elif meth in ('__setitem__', 'update', 'setdefault'):
                eff.add((m.group(1), 'set'))
    return eff


def check(model, R, tier):
    module = model.cls(MOD)
    # ---------------------------------------------------------------- REG-EXCLUSIVE
    R.rule('C12.REG-EXCLUSIVE', 'on every branch of Module.__setattr__ the name ends up in at most one registry: Module branch sets _submodules and removes from _parameters, '
                                'Parameter branch the reverse, plain values are removed from both', floor=3)
    sa = model.func(MOD + '.__setattr__')
    want = {'Module': {('_submodules', 'set'), ('_parameters', 'pop')}, 'Parameter': {('_parameters', 'set'), ('_submodules', 'pop')},
            'plain': {('_parameters', 'pop'), ('_submodules', 'pop')}}
    nm, vl = sa.pos_params[1], sa.pos_params[2]
    base = {"hasattr(self, '_initialized')": True, 'self._initialized': True, "'_parameters' in self.__dict__": True, "'_submodules' in self.__dict__": True,
            "hasattr(self, '_parameters')": True, "hasattr(self, '_submodules')": True}
    for k, w in want.items():
        preds = dict(base)
        preds['isinstance(%s, Module)' % vl] = k == 'Module'
        preds['isinstance(%s, Parameter)' % vl] = k == 'Parameter'
        preds['isinstance(%s, (Module, Parameter))' % vl] = preds['isinstance(%s, (Parameter, Module))' % vl] = k != 'plain'
        try:
            outs = PE(model, preds=preds).paths(sa, {})
        except Incomplete as u:
            R.incomplete_at('C12.REG-EXCLUSIVE', sa.qualname, 'path evaluation of the %s case: %s' % (k, u))
            continue
        for o in outs:
            eff = pe_effects(o)
            extra = [c for c in o.conds if c[0] not in preds]
            R.ob('C12.REG-EXCLUSIVE', sa.qualname, '%s value%s: %s' % (k, ' under %s' % extra if extra else '', sorted(eff)), o.kind != 'raise' and eff == w,
                 'assigning a %s value must leave the registries as %s (got %s, path ends in %s): otherwise a replaced attribute stays registered (still returned by parameters() / submodules())'
                 % (k, sorted(w), sorted(eff), o.kind), sa.loc)
    # ---------------------------------------------------------------- ORDER
    R.rule('C12.ORDER', 'registries are insertion-ordered mappings written only by __init__/register_*/__setattr__; register_* check initialisation and type first; '
                        'submodules() and parameters() enumerate them in order (own parameters first)', floor=8)
    init = model.func(MOD + '.__init__')
    for r in REGS:
        st = [n for n in body_walk(init.node) if isinstance(n, ast.Assign) and norm(n.targets[0]) == 'self.' + r]
        ok = len(st) == 1 and norm(st[0].value) in ('OrderedDict()', 'dict()', '{}', 'collections.OrderedDict()')
        R.ob('C12.ORDER', init.qualname, 'self.%s = %s' % (r, norm(st[0].value) if st else None), ok, 'registries must be insertion ordered mappings', init.loc)
    allowed = {MOD + '.__init__', MOD + '.register_module', MOD + '.register_parameter', MOD + '.__setattr__'}
    for fn in model.live_funcs():
        if fn.mod.modname.startswith('synapgrad.nn') or fn.mod.modname.startswith('synapgrad.optim'):
            eff = registry_effects(model, fn, fn.node.body, depth=99)
            direct = bool(eff)
            assigns = [n for n in body_walk(fn.node) if isinstance(n, ast.Assign) and any(isinstance(t, ast.Attribute) and t.attr in REGS for t in n.targets)]
            if direct or assigns:
                R.ob('C12.ORDER', fn.qualname, 'writes registries: %s' % sorted(eff), fn.qualname in allowed, 'registries may only be written by the Module base class', fn.loc)
    for name, typ in (('register_module', 'Module'), ('register_parameter', 'Parameter')):
        f = model.func('%s.%s' % (MOD, name))
        cfg = CFG(f.node)
        stores = [n for n in body_walk(f.node) if isinstance(n, ast.Assign) and any(isinstance(t, ast.Subscript) and norm(t.value) in ('self._submodules', 'self._parameters') for t in n.targets)]
        chk = [n for n in body_walk(f.node) if isinstance(n, ast.Expr) and norm(n.value) == 'self.check_is_initialized()']
        tg = [n for n in body_walk(f.node) if isinstance(n, ast.If) and 'isinstance' in norm(n.test) and typ in norm(n.test) and any(isinstance(x, ast.Raise) for x in n.body)
              and isinstance(n.test, ast.UnaryOp)]
        ok = len(stores) == 1 and chk and tg and cfg.dominates(chk[0], stores[0]) and cfg.dominates(tg[0], stores[0])
        R.ob('C12.ORDER', f.qualname, 'initialised + type check before %s' % (norm(stores[0]) if stores else None), bool(ok), 'registration must be refused before super().__init__() ran and for values of the wrong type', f.loc)
        if stores:
            key = stores[0].targets[0].slice
            val = stores[0].value
            R.ob('C12.ORDER', f.qualname, norm(stores[0]), norm(key) == f.pos_params[1] and norm(val) == f.pos_params[2], 'the registry entry must be name -> value as given', f.loc)
    sub = model.func(MOD + '.submodules')
    rets = [n for n in body_walk(sub.node) if isinstance(n, ast.Return)]
    rv = inline_expr(sub.node, rets[0].value) if len(rets) == 1 else None
    ok = False
    if rv is not None:
        if isinstance(rv, ast.Call) and dotted(rv.func) in ('list', 'tuple') and len(rv.args) == 1 and norm(rv.args[0]) == 'self._submodules.values()':
            ok = True
        if isinstance(rv, ast.ListComp) and len(rv.generators) == 1 and not rv.generators[0].ifs and norm(rv.generators[0].iter) == 'self._submodules.values()' and norm(rv.elt) == norm(rv.generators[0].target):
            ok = True
    R.ob('C12.ORDER', sub.qualname, norm(rets[0].value) if rets else 'no return', ok, 'submodules() must list every registered submodule in registration order', sub.loc)
    # ---------------------------------------------------------------- ONCE
    R.rule('C12.ONCE', 'parameters() = own parameters, then each submodule\'s, each reported once: every extension of the returned list is guarded by an identity-membership test; '
                       'num_params iterates parameters() and splits on requires_grad into complementary counters', floor=3)
    pf = model.func(MOD + '.parameters')
    check_parameters(model, R, pf)
    npf = model.func(MOD + '.num_params')
    loops = [n for n in body_walk(npf.node) if isinstance(n, ast.For)]
    ok = len(loops) == 1 and norm(loops[0].iter) == 'self.parameters()'
    if ok:
        lp = loops[0]
        v = norm(lp.target)
        cfg = CFG(npf.node)
        incs = [n for n in ast.walk(lp) if isinstance(n, ast.AugAssign) and isinstance(n.op, ast.Add)]
        total = [n for n in incs if not [c for c in cfg.conditions(n) if v in norm(c[0])]]
        tr = [n for n in incs if ('%s.requires_grad' % v, True) in {(t, p) for t, p, _ in facts_at(cfg, n)}]
        fr = [n for n in incs if ('%s.requires_grad' % v, False) in {(t, p) for t, p, _ in facts_at(cfg, n)}]
        ok = len(total) == 1 and len(tr) == 1 and len(fr) == 1 and all(norm(n.value) in ('%s.size' % v, '%s.numel()' % v, '%s.data.size' % v) for n in incs) \
            and len({norm(n.target) for n in incs}) == 3
    R.ob('C12.ONCE', npf.qualname, 'total / trainable / frozen counters over self.parameters()', ok, 'each parameter element must be counted once, in exactly one of trainable / non-trainable', npf.loc)
    check_mode(model, R, 'C12')
    check_super_roles(model, R, 'C12')
    # ---------------------------------------------------------------- SUBCLASS
    subs = model.subclasses(MOD)
    R.rule('C12.SUBCLASS', 'every Module subclass calls super().__init__() before assigning attributes, overrides none of __setattr__/parameters/submodules/train/eval/register_*, and has a forward', floor=len(subs))
    R.analysed['module_subclasses'] = [c.qualname for c in subs]
    for c in subs:
        bad = [m for m in ('__setattr__', 'parameters', 'submodules', 'train', 'eval', 'register_module', 'register_parameter', 'zero_grad', 'freeze', 'unfreeze', '__getattr__', '__delattr__') if m in c.methods]
        ok = not bad
        why = 'overrides %s' % bad
        ini = c.methods.get('__init__')
        if ini is not None:
            cfg = CFG(ini.node)
            sup = [n for n in body_walk(ini.node) if isinstance(n, ast.Expr) and isinstance(n.value, ast.Call) and norm(n.value.func) == 'super().__init__']
            stores = [n for n in body_walk(ini.node) if isinstance(n, (ast.Assign, ast.AugAssign)) and any(isinstance(t, ast.Attribute) and norm(t.value) == 'self'
                                                                                                         for t in ([n.target] if isinstance(n, ast.AugAssign) else n.targets))]
            regs = [n for n in body_walk(ini.node) if isinstance(n, ast.Expr) and isinstance(n.value, ast.Call) and norm(n.value.func).startswith('self.register_')]
            if len(sup) != 1 or not all(cfg.dominates(sup[0], s) for s in stores + regs) or cfg.conditions(sup[0]):
                ok = False
                why = 'super().__init__() must run (unconditionally) before the first attribute assignment / registration'
        fw = model.find_method(c, 'forward')
        if fw is None or fw.cls.qualname == MOD:
            # abstract helper bases (Loss) are fine if every concrete subclass defines forward
            concrete_kids = [k for k in subs if any(b.qualname == c.qualname for b in model.mro(k)[1:])]
            if not concrete_kids or not all(model.find_method(k, 'forward') is not None and model.find_method(k, 'forward').cls.qualname != MOD for k in concrete_kids):
                ok = False
                why = 'no forward implementation'
        R.ob('C12.SUBCLASS', c.qualname, 'base-class discipline', ok, why, c.loc)
    # ---------------------------------------------------------------- SEQ
    R.rule('C12.SEQ', 'Sequential registers its arguments in order, threads one value through submodules() in order and returns it (identity when empty)', floor=3)
    sq = model.cls(MMOD + '.Sequential')
    si, sf = sq.methods['__init__'], sq.methods['forward']
    regs = [n for n in ast.walk(si.node) if isinstance(n, ast.Call) and norm(n.func) == 'self.register_module']
    ok = len(regs) == 2
    for r in regs:
        st = next(s for s in ast.walk(si.node) if isinstance(s, ast.Expr) and s.value is r)
        loops = CFG(si.node).in_loop(st)
        if not loops:
            ok = False
            continue
        it = norm(loops[0].iter)
        ok = ok and (it == 'enumerate(modules)' and norm(r.args[0]) in ('str(idx)', 'str(i)') or it == 'modules[0].items()')
    R.ob('C12.SEQ', si.qualname, 'registration loops: %s' % [norm(r) for r in regs], ok, 'submodules must be registered in argument / mapping order under distinct names', si.loc)
    loops = [n for n in sf.node.body if isinstance(n, ast.For)]
    ok = len(loops) == 1 and norm(loops[0].iter) == 'self.submodules()'
    if ok:
        lp = loops[0]
        m = norm(lp.target)
        b = lp.body
        # single threaded value: v = m(v)   (or out = m(inp); inp = out)
        thread = len(b) == 1 and isinstance(b[0], ast.Assign) and isinstance(b[0].value, ast.Call) and norm(b[0].value.func) == m and len(b[0].value.args) == 1 \
            and norm(b[0].value.args[0]) == norm(b[0].targets[0])
        thread2 = len(b) == 2 and all(isinstance(s, ast.Assign) for s in b) and isinstance(b[0].value, ast.Call) and norm(b[0].value.func) == m and norm(b[1].value) == norm(b[0].targets[0]) \
            and norm(b[1].targets[0]) == norm(b[0].value.args[0])
        ok = thread or thread2
        last = sf.node.body[-1]
        ok = ok and isinstance(last, ast.Return) and norm(last.value) in (norm(b[0].targets[0]), norm(b[-1].targets[0]))
    R.ob('C12.SEQ', sf.qualname, 'left-to-right composition over self.submodules()', ok, 'forward must apply the submodules in registration order to one threaded value', sf.loc)
    ub = [(n, s) for n, s in maybe_unbound(sf.node)]
    R.ob('C12.SEQ', sf.qualname, 'returned name definitely assigned (%s)' % [n for n, _ in ub], not ub, 'with zero submodules the returned name is unbound (UnboundLocalError): an empty Sequential must be the identity', sf.loc)
    return dict(
        explanation='Module trees are programs; the registries are maintained by ~70 lines of nn/modules.py. Decides: registry effects of every __setattr__ branch (exclusive registration, replacement), '
                    'who may write the registries, ordering and identity de-duplication of parameters(), counters of num_params, recursion and constants of train()/eval(), loops of zero_grad/freeze/unfreeze, '
                    'base-class discipline of all %d Module subclasses, Sequential registration order / composition / definite assignment. Dynamic registration by user code through object.__setattr__ is outside the package.' % len(subs),
        assumptions=['OrderedDict / dict preserve insertion order', 'user subclasses follow the same discipline as the package\'s own'],
        technique='registry effects on partially evaluated paths + who-may-write + CFG dominance + definite-assignment dataflow')


def check_parameters(model, R, pf):
    # parameters() is a pure function of the registries: a cached list kept on the module goes stale when a nested child changes later
    writes = []
    for n in body_walk(pf.node):
        tg = n.targets if isinstance(n, ast.Assign) else ([n.target] if isinstance(n, (ast.AugAssign, ast.AnnAssign)) else [])
        for t in tg:
            base = t
            while isinstance(base, (ast.Subscript, ast.Attribute)):
                base = base.value
            if isinstance(base, ast.Name) and base.id == pf.pos_params[0] and not isinstance(t, ast.Name):
                writes.append(norm(n)[:60])
        if isinstance(n, ast.Call) and norm(n.func) in ('setattr', 'object.__setattr__') and n.args and norm(n.args[0]) == pf.pos_params[0]:
            writes.append(norm(n)[:60])
    R.ob('C12.ONCE', pf.qualname, 'parameters() keeps no state on the module: %s' % (writes or 'no writes'), not writes,
         'a parameter list cached on the module is not invalidated when a descendant registers / replaces a parameter later: optimizers and zero_grad built from it miss the new leaves', pf.loc)
    rets = [n for n in body_walk(pf.node) if isinstance(n, ast.Return)]
    if len(rets) != 1 or not isinstance(rets[0].value, ast.Name):
        R.incomplete_at('C12.ONCE', pf.qualname, 'parameters() does not return a single named list')
        return
    res = rets[0].value.id
    cfg = CFG(pf.node)
    # source: own parameters first, then submodules in order
    src = norm(pf.node)
    own = [n for n in body_walk(pf.node) if isinstance(n, ast.Assign) and 'self._parameters.values()' in norm(n.value)]
    subl = [n for n in body_walk(pf.node) if isinstance(n, ast.For) and norm(n.iter) == 'self.submodules()']
    rec = [c for l in subl for c in ast.walk(l) if isinstance(c, ast.Call) and norm(c.func) == '%s.parameters' % norm(l.target)]
    ok = len(own) == 1 and len(subl) == 1 and len(rec) == 1 and cfg.dominates(own[0], subl[0])
    R.ob('C12.ONCE', pf.qualname, 'own parameters, then each submodule\'s parameters()', ok, 'parameters() must collect own parameters first and then recurse into every submodule in order', pf.loc)
    # every growth of the returned list is identity guarded
    grows = []
    for n in body_walk(pf.node):
        if isinstance(n, ast.Expr) and isinstance(n.value, ast.Call) and isinstance(n.value.func, ast.Attribute) and n.value.func.attr in ('append', 'extend', 'insert') \
                and norm(n.value.func.value) == res:
            grows.append((n, n.value.args[-1] if n.value.args else None, n.value.func.attr))
        if isinstance(n, ast.AugAssign) and norm(n.target) == res:
            grows.append((n, n.value, '+='))
        if isinstance(n, ast.Assign) and norm(n.targets[0]) == res and not (isinstance(n.value, (ast.List,)) and not n.value.elts) and norm(n.value) not in ('list()', '[]'):
            grows.append((n, n.value, '='))
    ok = bool(grows)
    why = 'a parameter (or submodule) shared between two parents would be reported twice: num_params double-counts it and an optimizer updates it twice per step'
    for st, val, how in grows:
        if how != 'append':
            ok = False
            continue
        fs = facts_at(cfg, st)
        v = norm(val)
        guarded = False
        inl = lambda x: norm(inline_expr(pf.node, x))
        for t, p, e in fs:
            if isinstance(e, ast.Compare) and len(e.ops) == 1 and inl(e.left) == 'id(%s)' % v and ((isinstance(e.ops[0], ast.NotIn) and p) or (isinstance(e.ops[0], ast.In) and not p)):
                seen = norm(e.comparators[0])
                marks = [m for m in body_walk(pf.node) if isinstance(m, ast.Expr) and isinstance(m.value, ast.Call) and norm(m.value.func) == '%s.add' % seen
                         and len(m.value.args) == 1 and inl(m.value.args[0]) == 'id(%s)' % v and cfg.in_loop(m) and cfg.in_loop(st) and cfg.in_loop(m)[0] is cfg.in_loop(st)[0]
                         and not [c_ for c_ in cfg.conditions(m) if c_ not in cfg.conditions(st)]]
                guarded = bool(marks)
            if isinstance(e, ast.Call) and dotted(e.func) == 'any' and not p and (' is ' in t) and v in t and res in t:
                guarded = True
        ok = ok and guarded
    R.ob('C12.ONCE', pf.qualname, 'growth of %s: %s' % (res, [norm(g[0]) for g in grows]), ok, why, pf.loc)


def check_mode(model, R, P):
    # ---------------------------------------------------------------- MODE
    R.rule(P + '.MODE', 'train()/eval() set self.training, recurse into every submodule with the same method and return self; zero_grad/freeze/unfreeze act on parameters() only', floor=5)
    for name, val in (('train', True), ('eval', False)):
        f = model.func('%s.%s' % (MOD, name))
        cfg = CFG(f.node)
        sets = [n for n in body_walk(f.node) if isinstance(n, ast.Assign) and norm(n.targets[0]) == 'self.training']
        loops = [n for n in body_walk(f.node) if isinstance(n, ast.For) and norm(n.iter) == 'self.submodules()']
        ok = len(sets) == 1 and isinstance(sets[0].value, ast.Constant) and sets[0].value.value is val and not cfg.conditions(sets[0])
        ok2 = len(loops) == 1
        if ok2:
            v = norm(loops[0].target)
            calls = [s for s in loops[0].body if isinstance(s, ast.Expr) and norm(s.value) == '%s.%s()' % (v, name)]
            ok2 = len(calls) == 1 and len(loops[0].body) == 1 and not cfg.conditions(loops[0])
        last = f.node.body[-1]
        ok3 = isinstance(last, ast.Return) and norm(last.value) == 'self'
        R.ob(P + '.MODE', f.qualname, 'self.training = %s; recurse %s(); return self' % (val, name), ok and ok2 and ok3,
             '%s() must set the flag unconditionally, call %s() on every submodule and return self' % (name, name), f.loc)
    for name, body_ok in (('zero_grad', None), ('freeze', ('requires_grad', False)), ('unfreeze', ('requires_grad', True))):
        f = model.func('%s.%s' % (MOD, name))
        loops = [n for n in f.node.body if isinstance(n, ast.For)]
        rest = [n for n in f.node.body if not isinstance(n, ast.For) and not (isinstance(n, ast.Expr) and isinstance(n.value, ast.Constant))]
        ok = len(loops) == 1 and not rest and norm(loops[0].iter) == 'self.parameters()'
        if ok and body_ok:
            v = norm(loops[0].target)
            b = loops[0].body
            ok = len(b) == 1 and isinstance(b[0], ast.Assign) and norm(b[0].targets[0]) == '%s.%s' % (v, body_ok[0]) and isinstance(b[0].value, ast.Constant) and b[0].value.value is body_ok[1]
        R.ob(P + '.MODE', f.qualname, 'loop over self.parameters()', ok, '%s must act on exactly the parameters reported by parameters()' % name, f.loc)


def check_super_roles(model, R, P):
    """a subclass constructor that forwards its own parameters to super().__init__ binds each of them to the base-class parameter of the same name
    (swapping two same-typed flags, e.g. affine / track_running_stats, type-checks and passes every symmetric test)"""
    from sa.rules_template import bind_call
    subs = [c for c in model.subclasses(MOD)]
    R.rule(P + '.SUPER-ROLES', 'arguments forwarded to super().__init__ reach the base-class parameter of the same name', floor=3)
    n = 0
    for c in subs:
        ini = c.methods.get('__init__')
        if ini is None:
            continue
        bases = model.mro(c)[1:]
        base_init = None
        for b in bases:
            if '__init__' in b.methods:
                base_init = b.methods['__init__']
                break
        if base_init is None:
            continue
        for call in [x for x in ast.walk(ini.node) if isinstance(x, ast.Call) and norm(x.func) == 'super().__init__']:
            # bind against the base constructor without its self parameter
            class _NoSelf:
                qualname = base_init.qualname
                pos_params = base_init.pos_params[1:]
            try:
                b, star = bind_call(call, _NoSelf)
            except Incomplete as u:
                R.incomplete_at(P + '.SUPER-ROLES', c.qualname, str(u))
                continue
            bparams = set(base_init.pos_params[1:]) | {a.arg for a in base_init.node.args.kwonlyargs}
            bad = []
            fwd = 0
            for bp, arg in b.items():
                if isinstance(arg, ast.Name) and arg.id in ini.params and arg.id in bparams:
                    fwd += 1
                    if arg.id != bp:
                        bad.append('%s -> %s' % (arg.id, bp))
            if fwd:
                n += 1
                R.ob(P + '.SUPER-ROLES', c.qualname, 'super().__init__(%s)' % ', '.join('%s=%s' % (k, norm(v)) for k, v in b.items())[:140], not bad,
                     'constructor argument(s) forwarded to the wrong base-class parameter: %s' % bad, ini.loc)
    return n
