"""C12 - module trees report each parameter once and propagate mode to all descendants."""
import ast
from sa.core import norm, body_walk, dotted, names_in, inline_expr
from sa.cfg import CFG, facts_at
from sa.defuse import maybe_unbound
from sa.report import Incomplete
from sa.peval import PE
import re

MMOD = 'synapgrad.nn.modules'
MOD = MMOD + '.Module'
REGS = ('_parameters', '_submodules')


def registry_effects(model, f, stmts, depth=0):
    """effects of a statement list on the registries: set of (registry, 'set'|'pop'), following self.register_* calls.
    Recognised: self.<reg>[k] = v ; self.<reg>.pop(k, ..) ; del self.<reg>[k] ; self.__dict__['<reg>'] / self.__dict__[var] with var ranging over a literal tuple"""
    eff = set()

    def reg_of(e, binding):
        # self._parameters | self.__dict__['_parameters'] | self.__dict__[var] | getattr(self, var)
        if isinstance(e, ast.Attribute) and isinstance(e.value, ast.Name) and e.value.id == 'self' and e.attr in REGS:
            return [e.attr]
        if isinstance(e, ast.Subscript) and norm(e.value) == 'self.__dict__':
            k = e.slice
            if isinstance(k, ast.Constant) and k.value in REGS:
                return [k.value]
            if isinstance(k, ast.Name) and k.id in binding:
                return [x for x in binding[k.id] if x in REGS]
        if isinstance(e, ast.Call) and dotted(e.func) == 'getattr' and len(e.args) >= 2 and norm(e.args[0]) == 'self':
            k = e.args[1]
            if isinstance(k, ast.Constant) and k.value in REGS:
                return [k.value]
            if isinstance(k, ast.Name) and k.id in binding:
                return [x for x in binding[k.id] if x in REGS]
        return []

    def walk(stmts, binding):
        for s in stmts:
            if isinstance(s, ast.For) and isinstance(s.iter, (ast.Tuple, ast.List)) and all(isinstance(x, ast.Constant) for x in s.iter.elts) and isinstance(s.target, ast.Name):
                b = dict(binding)
                b[s.target.id] = [x.value for x in s.iter.elts]
                walk(s.body, b)
                continue
            if isinstance(s, (ast.If,)):
                walk(s.body, binding)
                walk(s.orelse, binding)
                continue
            if isinstance(s, (ast.For, ast.While, ast.With, ast.Try)):
                for fld in ('body', 'orelse', 'finalbody'):
                    walk(getattr(s, fld, []) or [], binding)
                continue
            for n in ast.walk(s):
                if isinstance(n, ast.Assign):
                    for t in n.targets:
                        if isinstance(t, ast.Subscript):
                            for r in reg_of(t.value, binding):
                                eff.add((r, 'set'))
                if isinstance(n, ast.Delete):
                    for t in n.targets:
                        if isinstance(t, ast.Subscript):
                            for r in reg_of(t.value, binding):
                                eff.add((r, 'pop'))
                if isinstance(n, ast.Call) and isinstance(n.func, ast.Attribute):
                    if n.func.attr in ('pop', 'popitem', 'clear'):
                        for r in reg_of(n.func.value, binding):
                            eff.add((r, 'pop'))
                    if n.func.attr in ('__setitem__', 'update', 'setdefault'):
                        for r in reg_of(n.func.value, binding):
                            eff.add((r, 'set'))
                    if isinstance(n.func.value, ast.Name) and n.func.value.id == 'self' and depth < 3:
                        callee = model.funcs.get('%s.%s' % (MOD, n.func.attr))
                        if callee is not None and n.func.attr.startswith('register_'):
                            eff.update(registry_effects(model, callee, callee.node.body, depth + 1))
    walk(stmts, {})
    return eff


_REG = re.compile(r"^self\.(?:__dict__\[')?(_parameters|_submodules)(?:'\])?(\[|\.|$)")


def pe_effects(o):
    """registry effects along one evaluated path: stores self.<reg>[k] = v -> set ; .pop/.popitem/.clear/del -> pop ; update/setdefault/__setitem__ -> set"""
    eff = set()
    for key, v, st in o.stores:
        m = _REG.match(key)
        if m and m.group(2) == '[':
            eff.add((m.group(1), 'set'))
        elif m and m.group(2) == '':
            eff.add((m.group(1), 'rebind'))
    for ctext, args, kw, node in o.calls:
        if ctext == 'del':
            m = _REG.match(args[0])
            if m and m.group(2) == '[':
                eff.add((m.group(1), 'pop'))
            continue
        m = _REG.match(ctext)
        if m and m.group(2) == '.':
            meth = ctext[m.end():]
            if meth in ('pop', 'popitem', 'clear'):
                eff.add((m.group(1), 'pop'))
            elif meth in ('__setitem__', 'update', 'setdefault'):
                eff.add((m.group(1), 'set'))
    return eff


def check(model, R, tier):
    module = model.cls(MOD)
    # ---------------------------------------------------------------- REG-EXCLUSIVE
    R.rule('C12.REG-EXCLUSIVE', 'after `module.x = value` the name x is registered in exactly the registry of the new value\'s kind (neither for a plain value), whatever x was before '
                                '(parameter / submodule / plain attribute / absent) [Module.__setattr__ evaluated on a module tree: 12 cases]', floor=12)
    from sa.rules_modtree import check_world
    check_world(model, R, 'C12', rules=('REG',))
    # ---------------------------------------------------------------- ORDER
    R.rule('C12.ORDER', 'registries are insertion-ordered mappings written only by __init__/register_*/__setattr__ (who-may-write); register_* refuse an uninitialised module and a '
                        'value of the wrong type, otherwise append name -> value and drop the name from the other registry; submodules() lists them in order [evaluated on a module tree]', floor=12)
    allowed = {MOD + '.__init__', MOD + '.register_module', MOD + '.register_parameter', MOD + '.__setattr__'}
    for fn in model.live_funcs():
        if fn.mod.modname.startswith('synapgrad.nn') or fn.mod.modname.startswith('synapgrad.optim'):
            eff = registry_effects(model, fn, fn.node.body, depth=99)
            direct = bool(eff)
            assigns = [n for n in body_walk(fn.node) if isinstance(n, ast.Assign) and any(isinstance(t, ast.Attribute) and t.attr in REGS for t in n.targets)]
            if direct or assigns:
                R.ob('C12.ORDER', fn.qualname, 'writes registries: %s' % sorted(eff), fn.qualname in allowed, 'registries may only be written by the Module base class', fn.loc)
    check_world(model, R, 'C12', rules=('ORDER',))
    # ---------------------------------------------------------------- ONCE
    R.rule('C12.ONCE', 'parameters() = own parameters, then each submodule\'s (registration order, depth first), every object once also when a parameter or a submodule is shared; '
                       'num_params counts each parameter of that list once, in exactly one of trainable / non-trainable [evaluated on a module tree with shared objects]', floor=5)
    check_world(model, R, 'C12', rules=('ONCE',))
    check_mode(model, R, 'C12')
    from sa.props.c07 import check_setter_value
    check_setter_value(model, R, 'C12')        # freeze / unfreeze go through this setter
    check_super_roles(model, R, 'C12')
    # ---------------------------------------------------------------- SUBCLASS
    subs = model.subclasses(MOD)
    R.rule('C12.SUBCLASS', 'every Module subclass calls super().__init__() before assigning attributes, overrides none of __setattr__/parameters/submodules/train/eval/register_*, and has a forward', floor=len(subs))
    R.analysed['module_subclasses'] = [c.qualname for c in subs]
    for c in subs:
        bad = [m for m in ('__setattr__', 'parameters', 'submodules', 'train', 'eval', 'register_module', 'register_parameter', 'zero_grad', 'freeze', 'unfreeze', '__getattr__', '__delattr__') if m in c.methods]
        ok = not bad
        why = 'overrides %s' % bad
        ini = c.methods.get('__init__')
        if ini is not None:
            cfg = CFG(ini.node)
            sup = [n for n in body_walk(ini.node) if isinstance(n, ast.Expr) and isinstance(n.value, ast.Call) and norm(n.value.func) == 'super().__init__']
            stores = [n for n in body_walk(ini.node) if isinstance(n, (ast.Assign, ast.AugAssign)) and any(isinstance(t, ast.Attribute) and norm(t.value) == 'self'
                                                                                                         for t in ([n.target] if isinstance(n, ast.AugAssign) else n.targets))]
            regs = [n for n in body_walk(ini.node) if isinstance(n, ast.Expr) and isinstance(n.value, ast.Call) and norm(n.value.func).startswith('self.register_')]
            if len(sup) != 1 or not all(cfg.dominates(sup[0], s) for s in stores + regs) or cfg.conditions(sup[0]):
                ok = False
                why = 'super().__init__() must run (unconditionally) before the first attribute assignment / registration'
        fw = model.find_method(c, 'forward')
        if fw is None or fw.cls.qualname == MOD:
            # abstract helper bases (Loss) are fine if every concrete subclass defines forward
            concrete_kids = [k for k in subs if any(b.qualname == c.qualname for b in model.mro(k)[1:])]
            if not concrete_kids or not all(model.find_method(k, 'forward') is not None and model.find_method(k, 'forward').cls.qualname != MOD for k in concrete_kids):
                ok = False
                why = 'no forward implementation'
        R.ob('C12.SUBCLASS', c.qualname, 'base-class discipline', ok, why, c.loc)
    # ---------------------------------------------------------------- SEQ
    R.rule('C12.SEQ', 'Sequential registers its arguments (positional or one ordered mapping) in order and its forward is the left-to-right composition of the registered modules '
                      '(identity when empty) [constructor and forward evaluated on concrete layer objects]', floor=6)
    check_world(model, R, 'C12', rules=('SEQ',))
    return dict(
        explanation='Module trees are programs; the registries are maintained by ~70 lines of nn/modules.py. Decides: registry effects of every __setattr__ branch (exclusive registration, replacement), '
                    'who may write the registries, ordering and identity de-duplication of parameters(), counters of num_params, recursion and constants of train()/eval(), loops of zero_grad/freeze/unfreeze, '
                    'base-class discipline of all %d Module subclasses, Sequential registration order / composition / definite assignment. Dynamic registration by user code through object.__setattr__ is outside the package.' % len(subs),
        assumptions=['OrderedDict / dict preserve insertion order', 'user subclasses follow the same discipline as the package\'s own'],
        technique='partial evaluation of nn/modules.py on a heap of module / parameter objects with shared members (registries as ordered dicts) + who-may-write over the call graph + CFG dominance for subclass constructors')


def check_mode(model, R, P):
    R.rule(P + '.MODE', 'train()/eval() set the training flag of every module of the tree and return self; zero_grad/freeze/unfreeze act on exactly the parameters of parameters() '
                        '[evaluated on a module tree with shared objects]', floor=5)
    from sa.rules_modtree import check_world
    check_world(model, R, P, rules=('MODE',))


def check_super_roles(model, R, P):
    """a subclass constructor that forwards its own parameters to super().__init__ binds each of them to the base-class parameter of the same name
    (swapping two same-typed flags, e.g. affine / track_running_stats, type-checks and passes every symmetric test)"""
    from sa.rules_template import bind_call
    subs = [c for c in model.subclasses(MOD)]
    R.rule(P + '.SUPER-ROLES', 'arguments forwarded to super().__init__ reach the base-class parameter of the same name', floor=3)
    n = 0
    for c in subs:
        ini = c.methods.get('__init__')
        if ini is None:
            continue
        bases = model.mro(c)[1:]
        base_init = None
        for b in bases:
            if '__init__' in b.methods:
                base_init = b.methods['__init__']
                break
        if base_init is None:
            continue
        for call in [x for x in ast.walk(ini.node) if isinstance(x, ast.Call) and norm(x.func) == 'super().__init__']:
            # bind against the base constructor without its self parameter
            class _NoSelf:
                qualname = base_init.qualname
                pos_params = base_init.pos_params[1:]
            try:
                b, star = bind_call(call, _NoSelf)
            except Incomplete as u:
                R.incomplete_at(P + '.SUPER-ROLES', c.qualname, str(u))
                continue
            bparams = set(base_init.pos_params[1:]) | {a.arg for a in base_init.node.args.kwonlyargs}
            bad = []
            fwd = 0
            for bp, arg in b.items():
                if isinstance(arg, ast.Name) and arg.id in ini.params and arg.id in bparams:
                    fwd += 1
                    if arg.id != bp:
                        bad.append('%s -> %s' % (arg.id, bp))
            if fwd:
                n += 1
                R.ob(P + '.SUPER-ROLES', c.qualname, 'super().__init__(%s)' % ', '.join('%s=%s' % (k, norm(v)) for k, v in b.items())[:140], not bad,
                     'constructor argument(s) forwarded to the wrong base-class parameter: %s' % bad, ini.loc)
    return n
