"""C04 - leaf gradients accumulate exactly across any history of backward calls (buffer discipline)."""
from sa import opcat, rules_engine as E


def check(model, R, tier):
    ops, problems = opcat.catalogue(model)
    for q, why in problems:
        R.incomplete_at('C04.WRITERS', q, why)
    B = E.BackwardInfo(model)
    E.check_writers(model, R, 'C04', ops)
    E.check_buffer_discipline(model, R, 'C04', B)
    E.check_seed_owned(model, R, 'C04', B)
    E.check_release_predicate(model, R, 'C04', B)
    E.check_consume_release(model, R, 'C04', B)
    E.check_reset(model, R, 'C04')
    from sa.rules_modtree import check_optimizer_ctor
    check_optimizer_ctor(model, R, 'C04')       # an optimizer that drops members of its parameter list no longer resets them in zero_grad
    return dict(
        explanation='Histories share only the per-tensor gradient buffer; the check decides the buffer discipline on every path of Tensor.backward, zero_, the grad setter and both '
                    'zero_grad methods: who may write a buffer (package-wide), truth tables of the zero-initialisation guard (leaf: create iff absent; non-leaf: always reset), of the root '
                    'seed (accumulate iff leaf with buffer, else assign an owned, dtype-converted copy) and of the release predicate. The numerical value of the accumulated gradients is not decided.',
        assumptions=['user code does not write Tensor._grad directly', 'is_leaf / requires_grad have the semantics of their property definitions'],
        technique='who-may-write scan + path-condition truth tables (finite enumeration of predicate valuations) + freshness of the seed expression')
