"""C03 - chain rule on any DAG, each recorded op contributes exactly once (structural part: traversal + accumulation discipline)."""
from sa import opcat, rules_template as T, rules_engine as E


def check(model, R, tier):
    ops, problems = opcat.catalogue(model)
    for q, why in problems:
        R.incomplete_at('C03.SUM-OVER-PATHS', q, why)
    B = E.check_topo(model, R, 'C03')
    E.check_once(model, R, 'C03', B)
    E.check_identity(model, R, 'C03')
    E.check_init_before_sweep(model, R, 'C03', B)
    E.check_consume_release(model, R, 'C03', B)
    # SUM-OVER-PATHS / MIXED: the accumulation discipline of all 48 ops (same rule instances as C01/C02.ACC, reported under C03)
    sub = _Sub(R, 'C03.SUM-OVER-PATHS')
    R.rule('C03.SUM-OVER-PATHS', 'every op adds (+=) its contribution into each operand\'s buffer, once per operand position, guarded by that operand\'s requires_grad; '
                                 'list ops accumulate over all inputs; multi-output closures carry their own index', floor=48)
    from sa.rules_flags import check_flags
    for mod in ('synapgrad.functional', 'synapgrad.nn.functional'):
        check_flags(model, R, 'C03', mod, rules=('COVER',), names={'COVER': 'C03.SUM-OVER-PATHS'}, declare=False)
    T.check_ops(model, sub, ops, 'C03x')
    R.analysed['ops'] = len(ops)
    return dict(
        explanation='Decides the code-shape part of the chain rule on DAGs: Tensor.backward builds a post-order (topological) list with a visited test-and-mark and sweeps it '
                    'reversed, invoking each grad_fn at one call site once per node; nodes are keyed by identity; buffers exist before the sweep and are released only after use; '
                    'all 48 ops accumulate with += per operand position under that operand\'s own requires_grad. Values of gradients are not decided.',
        assumptions=['graphs are built only through the catalogued ops (children = operands)', 'CPython semantics of set membership by identity when __eq__/__hash__ are not overridden'],
        technique='CFG dominance + idiom recognition of the traversal + template rules + partial evaluation of every op wrapper and backward closure over all flag valuations')


class _Sub:
    """forwards ACC/BIND obligations of the template checker under the C03 rule name"""
    def __init__(self, R, rule):
        self.R, self.rulename = R, rule

    def rule(self, *a, **k):
        pass

    def ob(self, rule, where, construct, ok, detail='', loc=''):
        if rule.endswith('.ACC') or rule.endswith('.BIND'):
            return self.R.ob(self.rulename, where, construct, ok, detail, loc)
        return ok

    def incomplete_at(self, rule, where, why):
        self.R.incomplete_at(self.rulename, where, why)

    def note(self, t):
        pass
