"""C09 - stability-critical ops stay finite for large-magnitude inputs (Inf/NaN and epsilon-clipping hazards only)."""
import ast
from sa.core import norm, body_walk
from sa.absint import Interp, Tup
from sa.domains.overflow import OverflowDomain, V
from sa.report import Incomplete

K = 'synapgrad.cpu_ops.'
NAMES = ['sigmoid', 'tanh', 'selu', 'softmax', 'log_softmax', 'cross_entropy_loss', 'bce_with_logits_loss']

LOGITS = V('any', 'fin', True)
ROLES = {
    'a': LOGITS, 'y_pred': LOGITS, 'grad': V('any', 'fin', True), 'y_true': V('pos', 'fin', True, lb=True),
    'sigmoid_a': V('pos', 'b01', True, lb=True, prob=True), 'tanh_a': V('any', 'b01', True, lb=True),
    'softmax_a': V('pos', 'b01', True, lb=True, prob=True), 'log_softmax_a': V('neg', 'fin', True),
    'alpha': V('pos', 'fin', False, ge1=True, lb=True, scalar=True), 'scale': V('pos', 'fin', False, ge1=True, lb=True, scalar=True),
    'axis': V('any', 'fin', True, scalar=True),
}


def check(model, R, tier):
    kernels = [K + n + s for n in NAMES for s in ('_forward', '_backward')]
    R.rule('C09.HAZARD', 'for finite inputs of any sign and magnitude up to 1e4 no exp overflow reaches a product with a possibly-zero value, a difference/quotient of unbounded values, a log or the result; '
                         'no division by / log of a value that may underflow to 0 (abstract interpretation over a sign/magnitude domain with log-sum-exp shift facts)', floor=len(kernels))
    R.rule('C09.EPSCLIP', 'an underflowing probability is never guarded as log(p + epsilon) or 1/(p + epsilon) inside these kernels (the guard replaces the true value by log(1e-12))', floor=len(kernels))
    R.analysed['kernels'] = kernels
    from sa.rules_defn import check_defn
    check_defn(model, R, 'C09', ['sigmoid', 'softmax', 'log_softmax', 'bce_with_logits_loss', 'selu', 'cross_entropy_loss'],
               'agreement with the exactly computed result presupposes that the stabilised formula IS the mathematical one')
    for q in kernels:
        f = model.func(q)
        dom = OverflowDomain(ROLES)
        I = Interp(model, f, dom)
        try:
            ret = I.run()
        except Incomplete as e:
            R.incomplete_at('C09.HAZARD', q, str(e))
            continue
        hz = [e for e in I.events if e['kind'] == 'hazard']
        eps = [e for e in hz if 'epsilon' in e['why']]
        other = [e for e in hz if 'epsilon' not in e['why']]
        slots = ret.items if isinstance(ret, Tup) else [ret]
        for s in slots:
            c = dom.c(s)
            if c.mag == 'inf':
                other.append(dict(why='the returned value may be inf', node=f.node, loc=f.loc, func=q))
        seen = set()
        if not other:
            R.ob('C09.HAZARD', q, 'no Inf/NaN hazard (result %s)' % [repr(dom.c(s)) for s in slots], True, '', f.loc)
        for e in other:
            k = (e['why'], e['loc'])
            if k in seen:
                continue
            seen.add(k)
            R.ob('C09.HAZARD', q, norm(e['node'])[:90] if not isinstance(e['node'], ast.FunctionDef) else 'return value', False, '%s (at %s, reached from %s)' % (e['why'], e['loc'], q), e['loc'])
        if not eps:
            R.ob('C09.EPSCLIP', q, 'no epsilon-guarded probability', True, '', f.loc)
        for e in eps:
            k = (e['why'], e['loc'])
            if k in seen:
                continue
            seen.add(k)
            R.ob('C09.EPSCLIP', q, norm(e['node'])[:90], False, '%s (at %s, reached from %s)' % (e['why'], e['loc'], q), e['loc'])
    return dict(
        explanation='"Accurate to single precision" is a statement about rounding and is not decided. Decided is the necessary structural part for the 14 kernels of sigmoid, tanh, selu, softmax, log_softmax, '
                    'cross-entropy and BCE-with-logits: for inputs of any sign and magnitude beyond float32\'s exp threshold, the kernels contain no Inf/NaN hazard (exp of an argument not provably <= 0 must be consumed by a '
                    'bounded reciprocal / minimum; sums under log or in denominators must provably contain an exp(0) term through the max / relu shift) and no epsilon clipping of underflowing probabilities.',
        assumptions=['parameter roles (logits / forward outputs / targets) as frozen in sa/props/c09.py', 'np.exp of a non-positive argument cannot overflow; x - max(x, axis, keepdims) <= 0 with 0 attained along axis'],
        technique='abstract interpretation over a sign/magnitude/zero lattice with relational log-sum-exp shift facts')
