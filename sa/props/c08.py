"""C08 - optimizers follow the published SGD/Adam/AdamW update rules on any history (structural part)."""
import ast, itertools
from sa.core import norm, body_walk, dotted, names_in
from sa.cfg import CFG, facts_at
from sa.absint import Interp, Tup, Const
from sa.domains.alias import Alias, FRESH
from sa.poly import P, sqrt
from sa.subst import Subst
from sa.report import Incomplete

OMOD = 'synapgrad.optim.optimizers'
OPTS = ('SGD', 'Adam', 'AdamW')
STATE = {'SGD': ['momentum_buffer'], 'Adam': ['m1', 'm2'], 'AdamW': ['m1', 'm2']}


def step_loop(model, cls):
    """the `for i, p in enumerate(self.parameters)` loop of <cls>.step and facts about its context"""
    f = model.func('%s.%s.step' % (OMOD, cls))
    loops = [n for n in ast.walk(f.node) if isinstance(n, ast.For) and 'self.parameters' in norm(n.iter)]
    if len(loops) != 1:
        raise Incomplete('%s.step: expected one loop over self.parameters, found %d' % (cls, len(loops)))
    lp = loops[0]
    t = lp.target
    if isinstance(t, ast.Tuple) and len(t.elts) == 2:
        ivar, pvar = norm(t.elts[0]), norm(t.elts[1])
    else:
        ivar, pvar = None, norm(t)
    return f, lp, ivar, pvar


class OptAlias(Alias):
    """alias roots are the parameter's gradient buffer and storage"""
    def __init__(self, pvar):
        self.pvar = pvar

    def attribute(self, I, base, attr, node):
        if attr in ('_grad', 'grad', 'data') and norm(node.value) == self.pvar:
            return frozenset(['%s.%s' % (self.pvar, attr)])
        return super().attribute(I, base, attr, node)

    def param(self, I, func, name, index):
        return FRESH

    def store_subscript(self, I, base, index, val, node, aug=None):
        tgt = node.target if isinstance(node, ast.AugAssign) else node.targets[0]
        if isinstance(tgt, ast.Subscript) and norm(tgt.value).startswith('self.'):
            I.event('state-store', node, state=norm(tgt.value), aliases=sorted(self.c(val)))
        return super().store_subscript(I, base, index, val, node, aug)

    def method(self, I, recv, name, args, kwargs, node):
        if name in ('append', 'insert', 'extend') and isinstance(node.func, ast.Attribute) and norm(node.func.value).startswith('self.'):
            I.event('state-store', node, state=norm(node.func.value), aliases=sorted(self.c(args[-1])) if args else [])
        return super().method(I, recv, name, args, kwargs, node)


def check(model, R, tier):
    from sa.rules_modtree import check_optimizer_ctor
    check_optimizer_ctor(model, R, 'C08')
    from sa import rules_hygiene as _H
    _H.check_signature_order(model, R, 'C08', [OMOD + '.SGD.__init__', OMOD + '.Adam.__init__', OMOD + '.AdamW.__init__'], synonyms={'params': 'parameters'},
                             siblings=[(OMOD + '.Adam.__init__', OMOD + '.AdamW.__init__')])
    R.rule('C08.OWN', 'every value stored into optimizer state is fresh storage: it may not alias the parameter\'s gradient buffer or data on any path', floor=5)
    R.rule('C08.GRAD-CONST', 'step() performs no in-place effect on storage that may alias a parameter\'s gradient buffer (may-alias abstract interpretation): the gradient is read-only for the optimizer', floor=3)
    R.rule('C08.INPLACE', 'the parameter update is an augmented assignment on p.data inside the loop over self.parameters (no rebinding of the storage)', floor=3)
    R.rule('C08.FROZEN', 'every write of p.data / optimizer state / read of p._grad in step is control-dependent on p.requires_grad and on the gradient being present; zero_grad skips frozen parameters', floor=10)
    R.rule('C08.NOGRAD', 'the parameter loop runs inside `with no_grad()`', floor=3)
    R.rule('C08.COUNTER', 'step calls super().step() exactly once before the first read of self.t; the base step increments self.t by one', floor=4)
    R.rule('C08.FORMULA', 'for every valuation of the configuration predicates the straight-line update has the normal form of the published rule (PyTorch SGD / Adam / AdamW)', floor=38)
    for cls in OPTS:
        try:
            f, lp, ivar, pvar = step_loop(model, cls)
        except Incomplete as e:
            R.incomplete_at('C08.FORMULA', '%s.%s.step' % (OMOD, cls), str(e))
            continue
        q = f.qualname
        cfg = CFG(f.node)
        # ---------------- OWN
        dom = OptAlias(pvar)
        I = Interp(model, f, dom)
        try:
            I.run()
            stores = [e for e in I.events if e['kind'] == 'state-store']
            seen = set()
            for e in stores:
                k = (e['loc'], norm(e['stmt']), tuple(e['aliases']))
                if k in seen:
                    continue
                seen.add(k)
                R.ob('C08.OWN', q, norm(e['stmt'])[:100], not e['aliases'],
                     'value stored into %s may alias %s: a later backward() accumulates in place into that buffer and corrupts the optimizer state' % (e['state'], e['aliases']), e['loc'])
            muts = [e for e in I.events if e['kind'] == 'mutation' and any(x.endswith(('._grad', '.grad')) for x in e['params'])]
            R.ob('C08.GRAD-CONST', q, 'in-place effects on the gradient buffer: %s' % ([norm(e['stmt'])[:60] for e in muts] or 'none'), not muts,
                 'step() modifies storage that may alias the parameter\'s gradient buffer (%s): p.grad read after the step, or accumulated over several backward calls, is corrupted'
                 % [(norm(e['stmt'])[:60], e['how']) for e in muts][:2], muts[0]['loc'] if muts else f.loc)
            if not stores and STATE[cls]:
                R.ob('C08.OWN', q, 'state stores', False, 'no store into optimizer state found', f.loc)
        except Incomplete as e:
            R.incomplete_at('C08.OWN', q, str(e))
        # ---------------- INPLACE
        dstores = [n for n in ast.walk(lp) if isinstance(n, (ast.Assign, ast.AugAssign)) and any(norm(t) == '%s.data' % pvar or (isinstance(t, ast.Subscript) and norm(t.value) == '%s.data' % pvar)
                                                                                                  for t in ([n.target] if isinstance(n, ast.AugAssign) else n.targets))]
        okk = bool(dstores) and all(isinstance(n, ast.AugAssign) and isinstance(n.op, (ast.Sub, ast.Add)) for n in dstores)
        R.ob('C08.INPLACE', q, ' ; '.join(norm(n) for n in dstores)[:160], okk,
             'parameters must be updated in place (p.data -= ...): rebinding p.data or building a new tensor breaks the identity/dtype of the storage the model holds', f.loc)
        news = [c for c in ast.walk(lp) if isinstance(c, ast.Call) and (norm(c.func).endswith('Tensor') or norm(c.func).endswith('Parameter'))]
        R.ob('C08.INPLACE', q, 'no new Tensor/Parameter objects in the loop', not news, 'the optimizer must update the tensors it was given', f.loc)
        # ---------------- FROZEN
        sensitive = []
        for n in ast.walk(lp):
            if isinstance(n, (ast.Assign, ast.AugAssign)) and n is not lp:
                tg = [n.target] if isinstance(n, ast.AugAssign) else n.targets
                writes = any(norm(t).startswith('%s.' % pvar) or (isinstance(t, ast.Subscript) and norm(t.value).startswith('self.')) or norm(t).startswith('self.') for t in tg)
                reads = any(isinstance(x, ast.Attribute) and x.attr in ('_grad', 'grad') and norm(x.value) == pvar for x in ast.walk(n.value))
                if writes or reads:
                    sensitive.append(n)
            if isinstance(n, ast.Expr) and isinstance(n.value, ast.Call) and isinstance(n.value.func, ast.Attribute) and n.value.func.attr in ('append', 'insert') and norm(n.value.func.value).startswith('self.'):
                sensitive.append(n)
        for n in sensitive:
            fs = {(t, p) for t, p, _ in facts_at(cfg, n)}
            ok = ('%s.requires_grad' % pvar, True) in fs and (('%s._grad is None' % pvar, False) in fs or ('%s._grad is not None' % pvar, True) in fs)
            R.ob('C08.FROZEN', q, norm(n)[:100], ok, 'a parameter that does not require grad (or has no gradient) must be left untouched - also under weight decay / momentum', '%s:%d' % (f.mod.relpath, n.lineno))
        # ---------------- NOGRAD
        withs = [w for w, field in cfg.enclosing(lp) if isinstance(w, ast.With)]
        okw = any(isinstance(it.context_expr, ast.Call) and model.resolve(f.mod, it.context_expr.func) == 'synapgrad.tensor.no_grad' for w in withs for it in w.items)
        R.ob('C08.NOGRAD', q, 'with %s' % [norm(it.context_expr) for w in withs for it in w.items], okw, 'updates must not be recorded in the autograd graph', f.loc)
        # ---------------- COUNTER
        sup = [n for n in body_walk(f.node) if isinstance(n, ast.Expr) and norm(n.value) == 'super().step()']
        treads = [n for n in ast.walk(f.node) if isinstance(n, ast.Attribute) and norm(n) == 'self.t']
        okc = len(sup) == 1 and not cfg.conditions(sup[0]) and not cfg.in_loop(sup[0]) and cfg.dominates(sup[0], lp)
        R.ob('C08.COUNTER', q, 'super().step() x%d before the loop' % len(sup), okc, 'the step counter must advance exactly once per step, before bias corrections read it', f.loc)
        # ---------------- FORMULA
        try:
            formula(model, R, cls, f, lp, ivar, pvar)
        except Incomplete as e:
            R.incomplete_at('C08.FORMULA', q, str(e))
    base = model.func(OMOD + '.Optimizer.step')
    incs = [n for n in body_walk(base.node) if isinstance(n, ast.AugAssign) and norm(n.target) == 'self.t' and isinstance(n.op, ast.Add) and norm(n.value) == '1']
    R.ob('C08.COUNTER', base.qualname, 'self.t += 1', len(incs) == 1 and not CFG(base.node).conditions(incs[0]), 'the base class advances the step counter by one', base.loc)
    init = model.func(OMOD + '.Optimizer.__init__')
    R.ob('C08.COUNTER', init.qualname, 'self.t = 0', any(isinstance(n, ast.Assign) and norm(n.targets[0]) == 'self.t' and norm(n.value) == '0' for n in body_walk(init.node)), 'the counter starts at 0', init.loc)
    # zero_grad
    zg = model.func(OMOD + '.Optimizer.zero_grad')
    zc = [n for n in ast.walk(zg.node) if isinstance(n, ast.Call) and isinstance(n.func, ast.Attribute) and n.func.attr == 'zero_']
    zcfg = CFG(zg.node)
    for c in zc:
        st = next(s for s in ast.walk(zg.node) if isinstance(s, ast.Expr) and s.value is c)
        fs = {(t, p) for t, p, _ in facts_at(zcfg, st)}
        R.ob('C08.FROZEN', zg.qualname, norm(c), (norm(c.func.value) + '.requires_grad', True) in fs, 'zero_grad must not give frozen parameters a gradient buffer (weight decay / momentum would then move them)', zg.loc)
    return dict(
        explanation='Decides for SGD / Adam / AdamW: ownership of optimizer state (no alias of p._grad / p.data on any path), in-place update of the given storage, control dependence of every '
                    'state/parameter write on requires_grad and gradient presence, the no_grad region, the step counter discipline, and - by forward substitution in a polynomial normal form under all '
                    '32 / 4 / 2 valuations of the configuration predicates - equality of the update with the published PyTorch rules. Floating-point trajectories are not decided.',
        assumptions=['reference update rules as frozen in sa/props/c08.py (torch.optim.SGD / Adam / AdamW without amsgrad/foreach)', 'arithmetic on arrays is elementwise (terms are compared as scalar formulas)'],
        technique='may-alias abstract interpretation + control-dependence facts + forward substitution to a polynomial normal form with trace partitioning')


# ------------------------------------------------------------------------------------------------ FORMULA
def _spellings(p, i, v):
    """all recognised spellings of the configuration predicates, bound to the valuation v"""
    wd, mom, buf, nes, mx = v.get('wd', False), v.get('mom', False), v.get('buf', False), v.get('nesterov', False), v.get('maximize', False)
    d = {'%s.requires_grad' % p: True, '%s._grad is None' % p: False, '%s._grad is not None' % p: True, '%s.has_grad()' % p: True,
         'self.maximize': mx, 'self.nesterov': nes}
    for txt, val in (('self.weight_decay', wd), ('self.momentum', mom)):
        d[txt] = val
        d[txt + ' != 0'] = val
        d[txt + ' == 0'] = not val
        d[txt + ' > 0'] = val
        d['0 != ' + txt] = val
    b = 'self.momentum_buffer[%s]' % i
    d[b + ' is not None'] = buf
    d[b + ' is None'] = not buf
    return d


def formula(model, R, cls, f, lp, ivar, pvar):
    from sa.peval import PE, Opaque
    q = f.qualname
    p, i = 'p', 'i'         # canonical aliases of the loop variables (see loop_hook)
    atoms = {'p._grad': P.atom('g'), 'p.data': P.atom('theta'), 'self.lr': P.atom('lr'), 'self.weight_decay': P.atom('wd'), 'self.momentum': P.atom('mu'), 'self.dampening': P.atom('tau'),
             'self.momentum_buffer[i]': P.atom('buf'), 'self.m1[i]': P.atom('m1'), 'self.m2[i]': P.atom('m2'), 'self.beta1': P.atom('b1'), 'self.beta2': P.atom('b2'),
             'self.epsilon': P.atom('eps'), 'self.t': P.atom('t')}
    A = {v.canon(): v for v in atoms.values()}

    def loop_hook(pe, s, env):
        t = s.target
        if 'self.parameters' not in norm(s.iter):
            return False
        if isinstance(t, ast.Tuple) and len(t.elts) == 2 and all(isinstance(e, ast.Name) for e in t.elts):
            env[t.elts[0].id] = Opaque('@i')
            env[t.elts[1].id] = Opaque('@p')
            return True
        if isinstance(t, ast.Name):
            env[t.id] = Opaque('@p')
            return True
        return False
    names = {'SGD': ['maximize', 'wd', 'mom', 'buf', 'nesterov'], 'Adam': ['maximize', 'wd']}.get(cls, ['maximize'])
    for vals in itertools.product((False, True), repeat=len(names)):
        v = dict(zip(names, vals))
        pe = PE(model, atoms=atoms, preds=_spellings(p, i, v), loop_hook=loop_hook)
        try:
            outs = pe.paths(f, {f.pos_params[0]: Opaque('@self')})
        except Incomplete as e:
            R.incomplete_at('C08.FORMULA', q, str(e))
            return
        label = '%s[%s]' % (cls, ','.join('%s=%d' % (k, v[k]) for k in names))
        extra = sorted({t for o in outs for t, _ in o.conds} - set(pe.preds))
        if len(outs) != 1:
            R.incomplete_at('C08.FORMULA', q, '%s: the update depends on predicates this rule has no valuation for: %s' % (label, extra))
            return
        o = outs[0]
        got_theta = o.mem.get('p.data', A['theta'])
        g = -A['g'] if v.get('maximize') else A['g']
        ref_state = {}
        if cls == 'SGD':
            if v['wd']:
                g = g + A['wd'] * A['theta']
            if v['mom']:
                buf = A['mu'] * A['buf'] + (1 - A['tau']) * g if v['buf'] else g
                ref_state['self.momentum_buffer[i]'] = buf
                g = g + A['mu'] * buf if v['nesterov'] else buf
            ref_theta = A['theta'] - A['lr'] * g
        else:
            theta0 = A['theta']
            if cls == 'Adam':
                if v['wd']:
                    g = g + A['wd'] * A['theta']
            else:
                theta0 = A['theta'] - A['lr'] * A['wd'] * A['theta']
            m = A['b1'] * A['m1'] + (1 - A['b1']) * g
            s2 = A['b2'] * A['m2'] + (1 - A['b2']) * g * g
            ref_state['self.m1[i]'] = m
            ref_state['self.m2[i]'] = s2
            mh = m / (1 - A['b1'] ** A['t'])
            vh = s2 / (1 - A['b2'] ** A['t'])
            ref_theta = theta0 - A['lr'] * mh / (sqrt(vh) + A['eps'])
        ok = isinstance(got_theta, P) and got_theta == ref_theta
        R.ob('C08.FORMULA', q, label + ' theta', ok,
             'parameter update differs from the published rule under %s: got %s ; reference %s' % (v, got_theta.canon()[:160] if isinstance(got_theta, P) else got_theta, ref_theta.canon()[:160]), f.loc)
        for k, want in ref_state.items():
            got = o.mem.get(k)
            R.ob('C08.FORMULA', q, label + ' ' + k, isinstance(got, P) and got == want,
                 'state update of %s differs from the published rule under %s: got %s ; reference %s' % (k, v, got.canon()[:120] if isinstance(got, P) else got, want.canon()[:120]), f.loc)
