"""C15 - weight initialisers fill tensors with the documented distribution, in place (scale / role / object-effect part).

All formula rules work on the paths produced by the partial evaluator (sa/peval.py): the initialisers are evaluated on a symbolic tensor
of a given rank, calls of the samplers are intercepted, and the terms that reach each sampler parameter are compared (normal form) with
the documented formulas.  Helper extraction, temporaries, early returns, keyword/positional spelling do not change the paths."""
import ast
from fractions import Fraction
from sa.core import norm, body_walk, dotted, names_in
from sa.poly import P, sqrt, as_p
from sa.peval import PE, Opaque
from sa.report import Incomplete

IMOD = 'synapgrad.nn.init'
FILLERS = ('uniform_', 'normal_', 'constant_', 'ones_', 'zeros_')
NP_SAMPLERS = {'numpy.random.uniform': ('low', 'high', 'size'), 'numpy.random.normal': ('loc', 'scale', 'size')}


def bind(sig, args, kw):
    b = dict(zip(sig, args))
    b.update(kw)
    return b


def canon(v):
    return v.canon() if isinstance(v, P) else repr(v)


def eqv(a, b):
    try:
        return as_p(a) == as_p(b)
    except Exception:
        return a == b


def tensor_atoms(name, rank):
    """atoms describing a symbolic tensor `name` of the given rank"""
    at = {'%s.ndim' % name: rank, '%s.data.ndim' % name: rank, 'len(%s.shape)' % name: rank, 'len(%s.data.shape)' % name: rank}
    return at


def fans(name, rank):
    s0, s1 = P.atom('%s.shape[0]' % name), P.atom('%s.shape[1]' % name)
    rf = P.atom('prod(%s.shape[2:])' % name) if rank > 2 else P.const(1)
    return s1 * rf, s0 * rf


def sampler_hook(record, gain_atom=True):
    def hook(pe, name, e, args, kw, env, func, depth):
        if name in (IMOD + '.uniform_', IMOD + '.normal_'):
            callee = pe.model.funcs[name]
            record.append((name.split('.')[-1], bind(callee.pos_params, args, kw), e))
            return args[0] if args else kw.get(callee.pos_params[0])
        if gain_atom and name == IMOD + '.calculate_gain':
            record.append(('calculate_gain', bind(pe.model.funcs[name].pos_params, args, kw), e))
            return P.atom('gain')
        return NotImplemented
    return hook


def check(model, R, tier):
    R.rule('C15.SCALE', 'the term reaching each sampler parameter has the normal form of the documented formula in the role the sampler gives it (bounds for uniform_, STANDARD DEVIATION for normal_), for matrix and conv-shaped tensors', floor=20)
    R.rule('C15.SAMPLER', 'uniform_/normal_ hand (a, b) / (mean, std) to np.random.uniform(low, high) / np.random.normal(loc, scale) in those roles, with size tensor.shape, cast to tensor.dtype', floor=2)
    R.rule('C15.FAN', 'fan_in = shape[1]*prod(shape[2:]), fan_out = shape[0]*prod(shape[2:]); rank < 2 raises', floor=3)
    R.rule('C15.GAIN', 'calculate_gain maps each documented non-linearity to the documented value and raises otherwise; kaiming passes (nonlinearity, a) and selects fan_in / fan_out by mode, rejecting other modes', floor=19)
    R.rule('C15.OBJECT', 'every filler returns its argument and writes only .data of it (new array of tensor.shape cast to tensor.dtype)', floor=9)
    from sa import rules_hygiene as _H
    IM = 'synapgrad.nn.init.'
    _H.check_signature_order(model, R, 'C15', [IM + n for n in ('uniform_', 'normal_', 'xavier_uniform_', 'xavier_normal_', 'kaiming_uniform_', 'kaiming_normal_')],
                             siblings=[(IM + 'kaiming_uniform_', IM + 'kaiming_normal_'), (IM + 'xavier_uniform_', IM + 'xavier_normal_')])
    gain = P.atom('gain')
    T = P.atom('tensor')
    # ---------------------------------------------------------------- FAN
    ff = model.func(IMOD + '._calculate_fan_in_and_fan_out')
    tp = ff.pos_params[0]
    for rank in (1, 2, 3, 4):
        pe = PE(model, atoms=tensor_atoms(tp, rank))
        outs = pe.paths(ff, {tp: P.atom(tp)})
        if rank < 2:
            R.ob('C15.FAN', ff.qualname, 'rank %d -> %s' % (rank, [o.kind for o in outs]), all(o.kind == 'raise' for o in outs) and bool(outs), 'fan in/out are undefined for tensors with fewer than 2 dimensions: must raise', ff.loc)
        else:
            fi, fo = fans(tp, rank)
            # every path (a memo table, defensive type tests .. may fork the evaluation) returns the same documented pair
            ok = bool(outs) and all(o.kind == 'return' and isinstance(o.value, (tuple, list)) and len(o.value) == 2 and eqv(o.value[0], fi) and eqv(o.value[1], fo) for o in outs)
            R.ob('C15.FAN', ff.qualname, 'rank %d -> %s' % (rank, [canon(v) for v in outs[0].value] if outs and isinstance(outs[0].value, (tuple, list)) else outs), ok,
                 'fan_in = shape[1]*prod(shape[2:]) = %s, fan_out = shape[0]*prod(shape[2:]) = %s' % (fi.canon(), fo.canon()), ff.loc)
    # ---------------------------------------------------------------- GAIN
    cg = model.func(IMOD + '.calculate_gain')
    table = {'linear': P.const(1), 'conv1d': P.const(1), 'conv2d': P.const(1), 'sigmoid': P.const(1), 'tanh': P.const(Fraction(5, 3)), 'relu': sqrt(P.const(2)), 'selu': P.const(Fraction(3, 4))}
    for nl, want in table.items():
        outs = PE(model).paths(cg, {cg.pos_params[0]: nl})
        ok = bool(outs) and all(o.kind == 'return' and eqv(o.value, want) for o in outs)
        R.ob('C15.GAIN', cg.qualname, '%s -> %s' % (nl, [canon(o.value) for o in outs]), ok, 'documented gain for %s is %s' % (nl, want.canon()), cg.loc)
    slope = P.atom('slope')
    # the parameter is only meaningful for leaky_relu: for every other non-linearity the gain is the table value whatever param is passed
    for nl, want in table.items():
        outs = PE(model, preds={'slope is None': False, 'slope is not None': True}, atoms_not_none=True).paths(cg, {cg.pos_params[0]: nl, cg.pos_params[1]: slope})
        rets = [o for o in outs if o.kind == 'return']
        ok = bool(rets) and len(rets) == len(outs) and all(eqv(o.value, want) for o in rets)
        R.ob('C15.GAIN', cg.qualname, '%s with a param given -> %s' % (nl, sorted({canon(o.value) for o in rets})), ok, 'param is ignored for %s: the gain stays %s' % (nl, want.canon()), cg.loc)
    outs = PE(model, preds={'slope is None': False, 'slope is not None': True}).paths(cg, {cg.pos_params[0]: 'leaky_relu', cg.pos_params[1]: slope})
    rets = [o for o in outs if o.kind == 'return']
    ok = bool(rets) and all(eqv(o.value, sqrt(2 / (1 + slope * slope))) for o in rets)
    R.ob('C15.GAIN', cg.qualname, 'leaky_relu(slope) -> %s' % sorted({canon(o.value) for o in rets}), ok, 'documented: sqrt(2 / (1 + negative_slope^2))', cg.loc)
    outs = PE(model).paths(cg, {cg.pos_params[0]: 'leaky_relu', cg.pos_params[1]: None})
    d = Fraction(1, 100)
    ok = len(outs) == 1 and outs[0].kind == 'return' and eqv(outs[0].value, sqrt(2 / (1 + P.const(d) * P.const(d))))
    R.ob('C15.GAIN', cg.qualname, 'leaky_relu(None) -> default slope 0.01', ok, 'the default negative slope is 0.01', cg.loc)
    outs = PE(model).paths(cg, {cg.pos_params[0]: 'leaky_relu', cg.pos_params[1]: True})
    R.ob('C15.GAIN', cg.qualname, 'leaky_relu(True) -> %s' % [o.kind for o in outs], bool(outs) and all(o.kind == 'raise' for o in outs), 'a bool is not a valid slope', cg.loc)
    outs = PE(model).paths(cg, {cg.pos_params[0]: 'softplus'})
    R.ob('C15.GAIN', cg.qualname, 'unknown nonlinearity -> %s' % [o.kind for o in outs], bool(outs) and all(o.kind == 'raise' for o in outs), 'an unsupported nonlinearity must be rejected', cg.loc)
    # ---------------------------------------------------------------- SCALE
    docs = {
        'xavier_uniform_': ('uniform_', lambda fi, fo, g: {'a': -(g * sqrt(6 / (fi + fo))), 'b': g * sqrt(6 / (fi + fo))}, 'U(-a, a), a = gain*sqrt(6/(fan_in+fan_out))'),
        'xavier_normal_': ('normal_', lambda fi, fo, g: {'mean': P.const(0), 'std': g * sqrt(2 / (fi + fo))}, 'N(0, std^2), std = gain*sqrt(2/(fan_in+fan_out))'),
    }
    for fname, (callee, want, doc) in docs.items():
        f = model.func('%s.%s' % (IMOD, fname))
        tp = f.pos_params[0]
        for rank in (2, 4):
            rec = []
            pe = PE(model, atoms=tensor_atoms(tp, rank), call_hook=sampler_hook(rec))
            outs = pe.paths(f, {tp: P.atom(tp), 'gain': gain})
            fi, fo = fans(tp, rank)
            _judge(R, f, fname, rank, '', outs, rec, callee, want(fi, fo, gain), doc, tp)
    kdocs = {
        'kaiming_uniform_': ('uniform_', lambda fan, g: {'a': -(g * sqrt(3 / fan)), 'b': g * sqrt(3 / fan)}, 'U(-bound, bound), bound = gain*sqrt(3/fan_mode)'),
        'kaiming_normal_': ('normal_', lambda fan, g: {'mean': P.const(0), 'std': g / sqrt(fan)}, 'N(0, std^2), std = gain/sqrt(fan_mode)'),
    }
    for fname, (callee, want, doc) in kdocs.items():
        f = model.func('%s.%s' % (IMOD, fname))
        tp = f.pos_params[0]
        for mode in ('fan_in', 'fan_out'):
            for rank in (2, 4):
                rec = []
                pe = PE(model, atoms=tensor_atoms(tp, rank), call_hook=sampler_hook(rec))
                outs = pe.paths(f, {tp: P.atom(tp), 'mode': mode, 'a': P.atom('slope'), 'nonlinearity': P.atom('nl')})
                fi, fo = fans(tp, rank)
                _judge(R, f, fname, rank, mode, outs, rec, callee, want(fi if mode == 'fan_in' else fo, gain), doc, tp)
                if rank == 2:
                    g = [r for r in rec if r[0] == 'calculate_gain']
                    ok = len(g) >= 1 and all(eqv(x[1].get('nonlinearity'), P.atom('nl')) and eqv(x[1].get('param'), P.atom('slope')) for x in g)
                    R.ob('C15.GAIN', f.qualname, '%s: calculate_gain(%s)' % (mode, [{k: canon(v) for k, v in x[1].items()} for x in g]), ok, 'kaiming must pass (nonlinearity, a) to calculate_gain', f.loc)
        outs = PE(model, atoms=tensor_atoms(tp, 2), call_hook=sampler_hook([])).paths(f, {tp: P.atom(tp), 'mode': 'fan_avg'})
        R.ob('C15.GAIN', f.qualname, 'mode=fan_avg -> %s' % [o.kind for o in outs], bool(outs) and all(o.kind == 'raise' for o in outs), 'an unknown mode must be rejected', f.loc)
    # layers: U(-1/sqrt(fan_in), 1/sqrt(fan_in)) for weight and bias
    for cls, rank in (('Linear', 2), ('Conv1d', 3), ('Conv2d', 4)):
        q = 'synapgrad.nn.layers.%s.reset_parameters' % cls
        f = model.func(q)
        rec = []
        at = tensor_atoms('self.weight', rank)
        pe = PE(model, atoms=at, call_hook=sampler_hook(rec), preds={})
        outs = pe.paths(f, {'self': Opaque('@self')})
        fi, fo = fans('self.weight', rank)
        good = [o for o in outs if o.kind in ('fall', 'return') and all(v for t, v in o.conds if 'fan_in' in t or '> 0' in t)]
        # take the paths where fan_in > 0 and the bias exists
        seen = False
        for o in outs:
            calls = [(nm, a, kw) for nm, a, kw, node in o.calls if nm in (IMOD + '.uniform_',)]
            if len(calls) != 2:
                continue
            if not all(v for t, v in o.conds if '> 0' in t):
                continue
            seen = True
            callee = model.funcs[IMOD + '.uniform_']
            for nm, a, kw in calls:
                b = bind(callee.pos_params, a, kw)
                tgt = canon(b.get(callee.pos_params[0]))
                ok = eqv(b.get('a'), -(1 / sqrt(fi))) and eqv(b.get('b'), 1 / sqrt(fi))
                R.ob('C15.SCALE', q, 'uniform_(%s, %s, %s)' % (tgt, canon(b.get('a')), canon(b.get('b'))), ok, 'layers start from U(-1/sqrt(fan_in), 1/sqrt(fan_in)) with fan_in = %s' % fi.canon(), f.loc)
            tg = sorted(canon(bind(callee.pos_params, a, kw).get(callee.pos_params[0])) for nm, a, kw in calls)
            R.ob('C15.SCALE', q, 'uniform_ targets %s' % tg, tg == ['self.bias', 'self.weight'], 'weight and bias must both be initialised', f.loc)
            break
        if not seen:
            R.ob('C15.SCALE', q, 'path initialising weight and bias', False, 'no path calls uniform_ on both weight and bias (paths: %s)' % [(o.kind, o.conds) for o in outs][:3], f.loc)
    # ---------------------------------------------------------------- SAMPLER + OBJECT
    for name in FILLERS:
        f = model.func('%s.%s' % (IMOD, name))
        tp = f.pos_params[0]
        pe = PE(model, atoms={})
        args = {tp: P.atom(tp)}
        for p in f.pos_params[1:]:
            args[p] = P.atom(p)
        outs = pe.paths(f, args)
        ok = len(outs) == 1 and outs[0].kind == 'return' and eqv(outs[0].value, P.atom(tp))
        o = outs[0] if outs else None
        keys = [k for k, v, st in o.stores] if o else []
        ok = ok and keys == ['%s.data' % tp]
        astype = [c for c in (o.calls if o else []) if str(c[0]).endswith('.astype') or str(c[0]).endswith('astype')]
        ok_cast = any(a and eqv(a[0], P.atom('%s.dtype' % tp)) or eqv(kw.get('dtype'), P.atom('%s.dtype' % tp)) for nm, a, kw, node in astype)
        shape_ok = any(any(eqv(x, P.atom('%s.shape' % tp)) for x in list(a) + list(kw.values())) for nm, a, kw, node in (o.calls if o else []) if str(nm).startswith('numpy.'))
        R.ob('C15.OBJECT', f.qualname, 'stores %s, returns %s, cast %s, shape %s' % (keys, canon(o.value) if o else None, ok_cast, shape_ok), ok and ok_cast and shape_ok,
             'a filler must only replace tensor.data by a new array of tensor.shape cast to tensor.dtype and return the same tensor object', f.loc)
        if name in ('uniform_', 'normal_'):
            npf = 'numpy.random.uniform' if name == 'uniform_' else 'numpy.random.normal'
            cs = [(a, kw) for nm, a, kw, node in o.calls if nm == npf] if o else []
            okc = len(cs) == 1
            got = None
            if okc:
                got = bind(NP_SAMPLERS[npf], cs[0][0], cs[0][1])
                sig = NP_SAMPLERS[npf]
                okc = eqv(got.get(sig[0]), P.atom(f.pos_params[1])) and eqv(got.get(sig[1]), P.atom(f.pos_params[2])) and eqv(got.get('size'), P.atom('%s.shape' % tp))
            R.ob('C15.SAMPLER', f.qualname, '%s(%s)' % (npf, {k: canon(v) for k, v in (got or {}).items()}), okc,
                 '%s must receive (%s, %s, %s.shape) as (%s)' % (npf, f.pos_params[1], f.pos_params[2], tp, ', '.join(NP_SAMPLERS[npf])), f.loc)
    for name in ('xavier_uniform_', 'xavier_normal_', 'kaiming_uniform_', 'kaiming_normal_'):
        f = model.func('%s.%s' % (IMOD, name))
        tp = f.pos_params[0]
        rec = []
        outs = PE(model, atoms=tensor_atoms(tp, 2), call_hook=sampler_hook(rec)).paths(f, {tp: P.atom(tp)})
        rets = [o for o in outs if o.kind == 'return']
        def effect(k):
            # a write into a private module-level table (a memo of pure shape computations) is not an effect on a tensor
            base = k.split('[', 1)[0]
            return not ('.' not in base and base.startswith('_') and '[' in k)
        ok = bool(rets) and all(eqv(o.value, P.atom(tp)) and not [k for k, v, st in o.stores if effect(k)] for o in rets)
        R.ob('C15.OBJECT', f.qualname, 'delegates to a filler on its own argument and returns it', ok, 'derived initialisers must fill (and return) the tensor they were given, writing nothing else', f.loc)
    return dict(
        explanation='The distribution of the draws is NumPy\'s; decided here is which scale the repository hands to which sampler parameter and what it does to the tensor object. The initialisers are partially evaluated on a symbolic tensor '
                    '(ranks 2 and 4, both kaiming modes); the terms reaching uniform_(a, b) / normal_(mean, std) and np.random.uniform(low, high, size) / np.random.normal(loc, scale, size) are compared in normal form (rational exponents) with the '
                    'documented formulas - a variance where a standard deviation is expected is a mismatch; fan computation for ranks 1-4, the gain table, mode selection and the memory effects of every filler are enumerated the same way. '
                    'Sample statistics of finite draws are not decided.',
        assumptions=['np.random.uniform(low, high, size) / np.random.normal(loc, scale, size) parameter roles', 'documented formulas as quoted in the property statement'],
        technique='partial evaluation with path enumeration + polynomial normal form with rational exponents + intercepted call-site role check')


def _judge(R, f, fname, rank, mode, outs, rec, callee, want, doc, tp):
    rets = [o for o in outs if o.kind == 'return']
    calls = [r for r in rec if r[0] == callee]
    label = '%s rank %d %s' % (fname, rank, mode)
    if not rets or not calls:
        R.ob('C15.SCALE', f.qualname, label, False, 'no path reaches %s (paths: %s)' % (callee, [(o.kind, o.value) for o in outs][:3]), f.loc)
        return
    b = calls[-1][1]
    for role, w in want.items():
        g = b.get(role)
        R.ob('C15.SCALE', f.qualname, '%s: %s(%s=%s)' % (label, callee, role, canon(g)), g is not None and eqv(g, w),
             'documented: %s; the %s parameter of %s must be %s' % (doc, role, callee, w.canon()), f.loc)
    t0 = b.get(tp, b.get('tensor'))
    R.ob('C15.SCALE', f.qualname, '%s: fills %s' % (label, canon(t0)), eqv(t0, P.atom(tp)), 'the sampler must be applied to the tensor that was passed in', f.loc)
