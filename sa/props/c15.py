"""C15 - weight initialisers fill tensors with the documented distribution, in place (scale / role / object-effect part)."""
import ast
from fractions import Fraction
from sa.core import norm, body_walk, dotted, names_in
from sa.cfg import CFG, facts_at
from sa.poly import P, sqrt, TermBuilder, Unsupported
from sa.report import Incomplete
from sa.rules_template import bind_call

IMOD = 'synapgrad.nn.init'
FILLERS = ('uniform_', 'normal_', 'constant_', 'ones_', 'zeros_')


def local_terms(model, f, extra_atoms=None, on_call=None):
    """forward-substitute the straight-line assignments of f into POLY terms: name -> P (single assignment locals)"""
    env = dict(extra_atoms or {})

    def atom_of(e):
        if isinstance(e, ast.Subscript) and isinstance(e.value, ast.Name) and e.value.id in env and not isinstance(env[e.value.id], P):
            v = env[e.value.id]
            k = e.slice
            if isinstance(v, (list, tuple)) and isinstance(k, ast.Constant):
                return v[k.value]
            if isinstance(v, (list, tuple)) and isinstance(k, ast.Name) and isinstance(env.get(k.id), int):
                return v[env[k.id]]
            if isinstance(v, dict) and isinstance(k, ast.Name):
                return P.atom('%s[%s]' % (e.value.id, k.id))
        if isinstance(e, (ast.Attribute, ast.Subscript)):
            return P.atom(norm(e))
        return None
    return env, atom_of


def check(model, R, tier):
    R.rule('C15.SCALE', 'the value reaching each sampler parameter has the normal form of the documented formula in the role the sampler gives it (bounds for uniform_, STANDARD DEVIATION for normal_)', floor=10)
    R.rule('C15.SAMPLER', 'uniform_/normal_ hand (a, b) / (mean, std) to np.random.uniform(low, high) / np.random.normal(loc, scale) in those roles, with shape tensor.shape, cast to tensor.dtype', floor=2)
    R.rule('C15.FAN', 'fan_in = shape[1]*prod(shape[2:]), fan_out = shape[0]*prod(shape[2:]); rank < 2 raises', floor=3)
    R.rule('C15.GAIN', 'calculate_gain maps each documented non-linearity to the documented value and raises otherwise; kaiming selects fan[mode] and passes the slope', floor=9)
    R.rule('C15.OBJECT', 'every filler returns its argument, writes only .data of it (new array of tensor.shape cast to tensor.dtype) and nothing else', floor=5)
    fan_in, fan_out, gain = P.atom('fan_in'), P.atom('fan_out'), P.atom('gain')
    # ---------------------------------------------------------------- SAMPLER roles
    samplers = {'uniform_': ('numpy.random.uniform', ('low', 'high', 'size'), ('a', 'b')), 'normal_': ('numpy.random.normal', ('loc', 'scale', 'size'), ('mean', 'std'))}
    for name, (npf, sig, params) in samplers.items():
        f = model.func('%s.%s' % (IMOD, name))
        cfg = CFG(f.node)
        calls = [c for c in body_walk(f.node) if isinstance(c, ast.Call) and model.resolve(f.mod, c.func) == npf and cfg.reachable(_stmt(f, c))]
        ok = len(calls) == 1
        why = 'expected one reachable %s call' % npf
        if ok:
            c = calls[0]
            b = {}
            for i, a in enumerate(c.args):
                b[sig[i]] = a
            for k in c.keywords:
                b[k.arg] = k.value
            t = f.pos_params[0]
            ok = norm(b.get(sig[0])) == params[0] and norm(b.get(sig[1])) == params[1] and norm(b.get('size')) in ('%s.shape' % t, '%s.data.shape' % t)
            why = '%s must receive (%s, %s, %s.shape) as (%s), got %s' % (npf, params[0], params[1], t, ', '.join(sig), {k: norm(v) for k, v in b.items()})
        R.ob('C15.SAMPLER', f.qualname, norm(calls[0])[:90] if calls else 'no call', ok, why, f.loc)
    # ---------------------------------------------------------------- SCALE
    def scale_of(fname, call_name, roles, want, pre_env=None):
        f = model.func('%s.%s' % (IMOD, fname) if '.' not in fname else fname)
        env, atom_of = local_terms(model, f, pre_env)
        for n in sorted([x for x in body_walk(f.node) if isinstance(x, ast.Assign)], key=lambda x: x.lineno):
            if isinstance(n, ast.Assign) and len(n.targets) == 1:
                t = n.targets[0]
                if isinstance(t, ast.Name):
                    try:
                        env[t.id] = TermBuilder(env, atom_of, model, f.mod, _on_call(model, f, env)).build(n.value)
                    except Unsupported:
                        pass
                elif isinstance(t, ast.Tuple) and isinstance(n.value, ast.Call) and (model.resolve(f.mod, n.value.func) or '').endswith('_calculate_fan_in_and_fan_out'):
                    names = [norm(e) for e in t.elts]
                    for nm, at in zip(names, (fan_in, fan_out)):
                        if nm != '_':
                            env[nm] = at
        rets = [n for n in body_walk(f.node) if isinstance(n, (ast.Return, ast.Expr)) and isinstance(n.value, ast.Call) and (model.resolve(f.mod, n.value.func) or '').endswith('.' + call_name)]
        out = []
        for r in rets:
            callee = model.func('%s.%s' % (IMOD, call_name))
            b, _ = bind_call(r.value, callee)
            got = {}
            for role in roles:
                try:
                    got[role] = TermBuilder(env, atom_of, model, f.mod, _on_call(model, f, env)).build(b[role]) if role in b else None
                except Unsupported as u:
                    got[role] = 'unsupported: %s' % u
            out.append((r, got))
        return f, out

    docs = [
        ('xavier_uniform_', 'uniform_', ('a', 'b'), lambda: {'a': -(gain * sqrt(6 / (fan_in + fan_out))), 'b': gain * sqrt(6 / (fan_in + fan_out))}, 'U(-a, a), a = gain*sqrt(6/(fan_in+fan_out))'),
        ('xavier_normal_', 'normal_', ('mean', 'std'), lambda: {'mean': P.const(0), 'std': gain * sqrt(2 / (fan_in + fan_out))}, 'N(0, std^2), std = gain*sqrt(2/(fan_in+fan_out))'),
        ('kaiming_uniform_', 'uniform_', ('a', 'b'), lambda: {'a': -(gain * sqrt(3 / P.atom('fan[mode]'))), 'b': gain * sqrt(3 / P.atom('fan[mode]'))}, 'U(-bound, bound), bound = gain*sqrt(3/fan_mode)'),
        ('kaiming_normal_', 'normal_', ('mean', 'std'), lambda: {'mean': P.const(0), 'std': gain / sqrt(P.atom('fan[mode]'))}, 'N(0, std^2), std = gain/sqrt(fan_mode)'),
    ]
    for fname, callee, roles, want, doc in docs:
        pre = {'fan': {}, }
        f, out = scale_of(fname, callee, roles, want, {'gain': gain} if fname.startswith('kaiming') else {'gain': gain})
        if len(out) != 1:
            R.incomplete_at('C15.SCALE', f.qualname, 'expected one call of %s, found %d' % (callee, len(out)))
            continue
        r, got = out[0]
        w = want()
        for role in roles:
            g = got[role]
            ok = isinstance(g, P) and g == w[role]
            R.ob('C15.SCALE', f.qualname, '%s(%s=%s)' % (callee, role, g.canon() if isinstance(g, P) else g), ok,
                 'documented: %s; the %s parameter of %s must be %s' % (doc, role, callee, w[role].canon()), '%s:%d' % (f.mod.relpath, r.lineno))
    # layers
    for cls in ('Linear', 'Conv1d', 'Conv2d'):
        q = 'synapgrad.nn.layers.%s.reset_parameters' % cls
        f = model.func(q)
        env, atom_of = local_terms(model, f)
        for n in body_walk(f.node):
            if isinstance(n, ast.Assign) and len(n.targets) == 1:
                t = n.targets[0]
                if isinstance(t, ast.Tuple) and isinstance(n.value, ast.Call) and (model.resolve(f.mod, n.value.func) or '').endswith('_calculate_fan_in_and_fan_out'):
                    ok_arg = n.value.args and norm(n.value.args[0]) == 'self.weight'
                    R.ob('C15.SCALE', q, norm(n), bool(ok_arg), 'fan_in must be computed from the layer\'s weight', '%s:%d' % (f.mod.relpath, n.lineno))
                    for nm, at in zip([norm(e) for e in t.elts], (fan_in, fan_out)):
                        env[nm] = at
                elif isinstance(t, ast.Name):
                    v = n.value
                    if isinstance(v, ast.IfExp):        # 1/sqrt(fan_in) if fan_in > 0 else 0
                        v = v.body
                    try:
                        env[t.id] = TermBuilder(env, atom_of, model, f.mod).build(v)
                    except Unsupported:
                        pass
        calls = [c for c in body_walk(f.node) if isinstance(c, ast.Call) and (model.resolve(f.mod, c.func) or '') == IMOD + '.uniform_']
        targets = sorted(norm(c.args[0]) for c in calls if c.args)
        R.ob('C15.SCALE', q, 'uniform_ targets %s' % targets, targets == ['self.bias', 'self.weight'], 'weight and bias must both be initialised', f.loc)
        for c in calls:
            b, _ = bind_call(c, model.func(IMOD + '.uniform_'))
            try:
                a = TermBuilder(env, atom_of, model, f.mod).build(b['a'])
                bb = TermBuilder(env, atom_of, model, f.mod).build(b['b'])
                ok = a == -(1 / sqrt(fan_in)) and bb == 1 / sqrt(fan_in)
                got = '(%s, %s)' % (a.canon(), bb.canon())
            except (Unsupported, KeyError) as u:
                ok, got = False, str(u)
            R.ob('C15.SCALE', q, 'uniform_(%s, %s)' % (norm(c.args[0]), got), ok, 'layers start from U(-1/sqrt(fan_in), 1/sqrt(fan_in))', '%s:%d' % (f.mod.relpath, c.lineno))
    # ---------------------------------------------------------------- FAN
    ff = model.func(IMOD + '._calculate_fan_in_and_fan_out')
    t = ff.pos_params[0]
    cfg = CFG(ff.node)
    guards = [n for n in body_walk(ff.node) if isinstance(n, ast.If) and any(isinstance(x, ast.Raise) for x in n.body)]
    rets = [n for n in body_walk(ff.node) if isinstance(n, ast.Return)]
    ok = False
    if guards and rets:
        tt = norm(guards[0].test)
        ok = tt in ('dimensions < 2', '%s.ndim < 2' % t, 'len(%s.shape) < 2' % t) and all(cfg.dominates(guards[0], r) for r in rets)
    R.ob('C15.FAN', ff.qualname, 'rank < 2 rejected', ok, 'fan in/out are undefined for tensors with fewer than 2 dimensions', ff.loc)
    env = {}
    def fan_atom(e):
        tx = norm(e)
        if tx == '%s.shape[1]' % t: return P.atom('s1')
        if tx == '%s.shape[0]' % t: return P.atom('s0')
        if isinstance(e, (ast.Attribute, ast.Subscript)): return P.atom(tx)
        return None
    def fan_call(tb, name, e):
        if name in ('numpy.prod', 'math.prod') and norm(e.args[0]) == '%s.shape[2:]' % t:
            return P.atom('rf')
        return None
    for n in sorted([x for x in body_walk(ff.node) if isinstance(x, ast.Assign)], key=lambda x: x.lineno):
        if isinstance(n, ast.Assign) and isinstance(n.targets[0], ast.Name):
            try:
                v = TermBuilder(env, fan_atom, model, ff.mod, fan_call).build(n.value)
                # receptive_field_size = 1 then overwritten under `dimensions > 2`: the general value is prod(shape[2:]) (empty product = 1)
                if n.targets[0].id in env and env[n.targets[0].id] == P.const(1) and v == P.atom('rf'):
                    env[n.targets[0].id] = v
                elif n.targets[0].id not in env or env[n.targets[0].id] == P.const(1):
                    env[n.targets[0].id] = v
            except Unsupported:
                pass
    ok = False
    if len(rets) == 1 and isinstance(rets[0].value, ast.Tuple) and len(rets[0].value.elts) == 2:
        try:
            a = TermBuilder(env, fan_atom, model, ff.mod, fan_call).build(rets[0].value.elts[0])
            b = TermBuilder(env, fan_atom, model, ff.mod, fan_call).build(rets[0].value.elts[1])
            ok = a == P.atom('s1') * P.atom('rf') and b == P.atom('s0') * P.atom('rf')
            R.ob('C15.FAN', ff.qualname, 'fan_in = %s ; fan_out = %s' % (a.canon(), b.canon()), ok, 'fan_in = shape[1]*prod(shape[2:]), fan_out = shape[0]*prod(shape[2:])', ff.loc)
        except Unsupported as u:
            R.incomplete_at('C15.FAN', ff.qualname, str(u))
    else:
        R.incomplete_at('C15.FAN', ff.qualname, 'unrecognised return')
    rf_guard = [n for n in body_walk(ff.node) if isinstance(n, ast.If) and norm(n.test) in ('dimensions > 2', '%s.ndim > 2' % t)]
    R.ob('C15.FAN', ff.qualname, 'receptive field only for rank > 2', len(rf_guard) <= 1, '', ff.loc)
    # ---------------------------------------------------------------- GAIN
    check_gain(model, R)
    for fname in ('kaiming_uniform_', 'kaiming_normal_'):
        f = model.func('%s.%s' % (IMOD, fname))
        src = {norm(n) for n in body_walk(f.node) if isinstance(n, (ast.Assign, ast.If))}
        gains = [n for n in body_walk(f.node) if isinstance(n, ast.Assign) and isinstance(n.value, ast.Call) and (model.resolve(f.mod, n.value.func) or '').endswith('calculate_gain')]
        ok = len(gains) == 1 and [norm(a) for a in gains[0].value.args] == ['nonlinearity', 'a']
        R.ob('C15.GAIN', f.qualname, norm(gains[0]) if gains else 'no gain', ok, 'kaiming must pass (nonlinearity, a) to calculate_gain', f.loc)
        lst = [n for n in body_walk(f.node) if isinstance(n, ast.Assign) and isinstance(n.value, ast.List)]
        okm = any(norm(n.value) == "['fan_in', 'fan_out']" for n in lst) and any(isinstance(n, ast.Assign) and norm(n.targets[0]) == 'mode' and '.index(mode)' in norm(n.value) for n in body_walk(f.node))
        fanb = [n for n in body_walk(f.node) if isinstance(n, ast.Assign) and norm(n.targets[0]) == 'fan' and isinstance(n.value, ast.Call) and norm(n.value.args[0]) == f.pos_params[0]]
        raises = [n for n in body_walk(f.node) if isinstance(n, ast.If) and 'mode in' in norm(n.test) and n.orelse and any(isinstance(x, ast.Raise) for x in n.orelse)]
        R.ob('C15.GAIN', f.qualname, 'fan[mode] with fan_in -> 0, fan_out -> 1, unknown mode raises', bool(okm and fanb and raises),
             'mode must select fan_in (index 0) or fan_out (index 1) of the tensor\'s fans and reject anything else', f.loc)
    # ---------------------------------------------------------------- OBJECT
    for name in FILLERS:
        f = model.func('%s.%s' % (IMOD, name))
        t = f.pos_params[0]
        cfg = CFG(f.node)
        stores = [n for n in body_walk(f.node) if isinstance(n, (ast.Assign, ast.AugAssign)) and cfg.reachable(n)]
        attr_stores = [n for n in stores if any(isinstance(x, (ast.Attribute, ast.Subscript)) for x in ([n.target] if isinstance(n, ast.AugAssign) else n.targets))]
        ok = len(attr_stores) == 1 and isinstance(attr_stores[0], ast.Assign) and norm(attr_stores[0].targets[0]) == '%s.data' % t
        if ok:
            v = attr_stores[0].value
            ok = isinstance(v, ast.Call) and isinstance(v.func, ast.Attribute) and v.func.attr == 'astype' and v.args and norm(v.args[0]) in ('%s.dtype' % t, '%s.data.dtype' % t) \
                and ('%s.shape' % t) in norm(v.func.value)
        rets = [n for n in body_walk(f.node) if isinstance(n, ast.Return) and cfg.reachable(n)]
        ok = ok and len(rets) == 1 and norm(rets[0].value) == t
        R.ob('C15.OBJECT', f.qualname, norm(attr_stores[0]) if attr_stores else 'no store', ok,
             'a filler must only replace tensor.data by a new array of tensor.shape cast to tensor.dtype and return the same tensor object', f.loc)
    for name in ('xavier_uniform_', 'xavier_normal_', 'kaiming_uniform_', 'kaiming_normal_'):
        f = model.func('%s.%s' % (IMOD, name))
        st = [n for n in body_walk(f.node) if isinstance(n, (ast.Assign, ast.AugAssign)) and any(isinstance(x, (ast.Attribute, ast.Subscript)) for x in ([n.target] if isinstance(n, ast.AugAssign) else n.targets))]
        rets = [n for n in body_walk(f.node) if isinstance(n, ast.Return)]
        ok = not st and len(rets) == 1 and isinstance(rets[0].value, ast.Call) and rets[0].value.args and norm(rets[0].value.args[0]) == f.pos_params[0]
        R.ob('C15.OBJECT', f.qualname, 'delegates to a filler on its own argument', ok, 'derived initialisers must fill (and return) the tensor they were given', f.loc)
    return dict(
        explanation='The distribution of the draws is NumPy\'s; decided here is which scale the repo hands to which sampler parameter and what it does to the tensor object: polynomial normal forms '
                    '(rational exponents) of the bounds / standard deviations reaching uniform_(a, b) and normal_(mean, std) equal the documented formulas in the right role (a variance where a standard '
                    'deviation is expected is a mismatch), fan computation, gain table, mode selection, and the object effects of every filler. Sample statistics of finite draws are not decided.',
        assumptions=['np.random.uniform(low, high, size) / np.random.normal(loc, scale, size) parameter roles', 'documented formulas as quoted in the property statement'],
        technique='forward substitution to a polynomial normal form with rational exponents + call-binding role check + effect scan')


def _stmt(f, node):
    for s in body_walk(f.node):
        if isinstance(s, ast.stmt) and not isinstance(s, (ast.If, ast.For, ast.While, ast.With, ast.Try, ast.FunctionDef)):
            if any(n is node for n in ast.walk(s)):
                return s
    return f.node.body[0]


def _on_call(model, f, env):
    def on_call(tb, name, e):
        if name and name.endswith('calculate_gain'):
            return P.atom('gain')
        return None
    return on_call


GAIN_TABLE = {'linear': P.const(1), 'conv1d': P.const(1), 'conv2d': P.const(1), 'sigmoid': P.const(1), 'tanh': P.const(Fraction(5, 3)), 'relu': sqrt(P.const(2)),
              'selu': P.const(Fraction(3, 4))}


def check_gain(model, R):
    f = model.func(IMOD + '.calculate_gain')
    # walk the if/elif chain: collect (set of literals for the branch) -> return expression
    found = {}
    fall_raises = False
    lists = {n.targets[0].id: [e.value for e in n.value.elts] for n in body_walk(f.node) if isinstance(n, ast.Assign) and isinstance(n.targets[0], ast.Name) and isinstance(n.value, ast.List)
             and all(isinstance(e, ast.Constant) for e in n.value.elts)}

    def lits(test):
        out = []
        for c in ([test] if not isinstance(test, ast.BoolOp) else test.values):
            if isinstance(c, ast.Compare) and len(c.ops) == 1 and norm(c.left) == f.pos_params[0]:
                if isinstance(c.ops[0], ast.Eq) and isinstance(c.comparators[0], ast.Constant):
                    out.append(c.comparators[0].value)
                elif isinstance(c.ops[0], ast.In):
                    k = c.comparators[0]
                    if isinstance(k, ast.Name) and k.id in lists:
                        out += lists[k.id]
                    elif isinstance(k, (ast.List, ast.Tuple)):
                        out += [e.value for e in k.elts if isinstance(e, ast.Constant)]
        return out
    top = [n for n in f.node.body if isinstance(n, ast.If)]
    cur = top[0] if top else None
    while cur is not None:
        ls = lits(cur.test)
        rets = [n for n in cur.body if isinstance(n, ast.Return)]
        for l in ls:
            found[l] = (cur, rets[-1].value if rets else None)
        if len(cur.orelse) == 1 and isinstance(cur.orelse[0], ast.If):
            cur = cur.orelse[0]
        else:
            fall_raises = any(isinstance(x, ast.Raise) for x in cur.orelse)
            cur = None
    for name, want in GAIN_TABLE.items():
        br = found.get(name)
        ok = False
        got = None
        if br and br[1] is not None:
            try:
                got = TermBuilder({}, None, model, f.mod).build(br[1])
                ok = got == want
            except Unsupported as u:
                got = str(u)
        R.ob('C15.GAIN', f.qualname, '%s -> %s' % (name, got.canon() if isinstance(got, P) else got), ok, 'documented gain for %s is %s' % (name, want.canon()), f.loc)
    br = found.get('leaky_relu')
    ok = False
    if br:
        body_nodes = [n for st in br[0].body for n in ast.walk(st)]
        rets = [n for n in body_nodes if isinstance(n, ast.Return)]
        s = P.atom('negative_slope')
        try:
            got = TermBuilder({}, None, model, f.mod).build(rets[-1].value) if rets else None
            ok = got == sqrt(2 / (1 + s * s))
            default = [n for n in body_nodes if isinstance(n, ast.Assign) and norm(n.targets[0]) == 'negative_slope' and isinstance(n.value, ast.Constant)]
            ok = ok and any(n.value.value == 0.01 for n in default) and any(isinstance(n, ast.Assign) and norm(n.targets[0]) == 'negative_slope' and norm(n.value) == f.pos_params[1] for n in body_nodes)
        except Unsupported:
            ok = False
    R.ob('C15.GAIN', f.qualname, 'leaky_relu -> sqrt(2/(1+slope^2)), slope = param or 0.01', ok, 'documented leaky_relu gain', f.loc)
    R.ob('C15.GAIN', f.qualname, 'unknown nonlinearity raises', fall_raises, 'an unsupported nonlinearity must be rejected', f.loc)
