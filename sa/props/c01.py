"""C01 - backward of every tensor op is the exact VJP (structural part)."""
from sa import opcat, rules_template as T

def ops_of(model, modname):
    ops, problems = opcat.catalogue(model)
    return [o for o in ops if o.func.mod.modname == modname], [p for p in problems if p[0].startswith(modname + '.')]

def check(model, R, tier):
    ops, problems = ops_of(model, 'synapgrad.functional')
    for q, why in problems:
        R.incomplete_at('C01.WRAP', q, why)
    R.analysed['ops'] = [o.name for o in ops]
    T.check_ops(model, R, ops, 'C01')
    T.check_cover(model, R, ops, 'C01')
    return dict(explanation='x', assumptions=[], technique='x')
