"""C01 - backward of every tensor op is the exact VJP (structural part: wiring, binding, accumulation, linearity in g,
un-broadcasting, inverse permutations, accumulating scatters, reduction re-insertion, axis typestate)."""
from sa import opcat, rules_template as T, rules_kernel as K

MOD = 'synapgrad.functional'

def ops_of(model, modname):
    ops, problems = opcat.catalogue(model)
    return [o for o in ops if o.func.mod.modname == modname], [p for p in problems if p[0].startswith(modname + '.')]

def check(model, R, tier):
    ops, problems = ops_of(model, MOD)
    for q, why in problems:
        R.incomplete_at('C01.WRAP', q, why)
    R.rule('C01.CATALOGUE', 'every tensor op wrapper of synapgrad/functional.py is an instance of the op template', floor=26)
    for o in ops:
        R.ob('C01.CATALOGUE', o.qual, 'template instance', True, '', o.func.loc)
    R.analysed['ops'] = [o.name for o in ops]
    R.analysed['backward_kernels'] = sorted({d for o in ops for d, _, _ in o.bwd_calls})
    T.check_ops(model, R, ops, 'C01')
    from sa.rules_flags import check_flags
    check_flags(model, R, 'C01', 'synapgrad.functional', rules=('COVER',))
    K.check_glin(model, R, ops, 'C01')
    K.check_homog(model, R, 'C01', names=('mul_backward', 'matmul_backward', 'addmm_backward'))
    K.check_perm(model, R, ops, 'C01')
    K.check_unbroadcast(model, R, ops, 'C01')
    kernels = [model.func(d) for d in sorted({d for o in ops for d, _, _ in o.bwd_calls})]
    K.check_scatter(model, R, kernels, 'C01', floor=3)
    K.check_viewstore(model, R, [f_ for f_ in model.module_functions('synapgrad.cpu_ops')] + ([f_ for f_ in model.module_functions('synapgrad.conv_tools')] if 'C01' == 'C02' else []), 'C01')
    K.check_reduce(model, R, 'C01', ['synapgrad.cpu_ops.%s_backward' % n for n in ('sum', 'mean', 'max', 'min')])
    K.check_mean_divisor(model, R, 'C01')
    from sa import deriv
    deriv.check_deriv(model, R, 'C01', ['add', 'mul', 'pow', 'rpow', 'neg', 'clone', 'exp', 'log', 'sqrt'])
    K.check_window_axis(model, R, 'C01')
    from sa import rules_axis as A
    A.check_axis(model, R, 'C01', scope='backward')
    from sa import rules_hygiene as _H
    _H.check_dim_tests(model, R, 'C01', scope='backward', modules=('synapgrad.cpu_ops', 'synapgrad.functional'))
    return dict(
        explanation='Static template + abstract-interpretation check of the 26 tensor-op wrappers and their backward kernels: decides the wiring '
                    '(children/kernel pairing/argument binding/accumulation), linearity of every returned gradient in the upstream gradient, un-broadcast '
                    'targets, inverse permutations, accumulating scatters, reduced-axis re-insertion and axis normalisation. It does NOT decide the numerical '
                    'value of any Jacobian entry (a wrong but linear, correctly shaped closed form is out of reach).',
        assumptions=['NumPy API roles as frozen in sa/domains/linear.py and sa/rules_kernel.py', 'kernels are reached only through the catalogued wrappers'],
        technique='op-template extraction + abstract interpretation (gradient linearity, must-dependence, axis typestate) + term differentiation + partial evaluation (flag valuations of wrapper and closure; reduction kernels on concrete axis cases)')
