"""GEOM typestate for the pool / conv kernels of cpu_ops (dominance form).  The conv_tools rules live in rules_convpe.py (evaluated paths)."""
import ast
from .core import norm, dotted, names_in, body_walk
from .cfg import CFG, facts_at
from .poly import P, floor, TermBuilder, Unsupported
from .report import Incomplete
from .rules_template import bind_call
from .npcanon import npcall, literal_perm, calls as npcalls

CT = 'synapgrad.conv_tools'
GEOM = {'kernel_size', 'stride', 'padding', 'dilation', 'step', 'output_size'}


def _loc(f, node):
    return '%s:%d' % (f.mod.relpath, getattr(node, 'lineno', f.node.lineno))


def _stmt(f, node):
    for s in ast.walk(f.node):
        if isinstance(s, ast.stmt) and not isinstance(s, (ast.If, ast.For, ast.While, ast.With, ast.Try, ast.FunctionDef)) and any(x is node for x in ast.walk(s)):
            return s


# ------------------------------------------------------------------------------------------------ GEOM
def check_geom(model, R, P_, funcs, declare=True):
    if declare:
        R.rule(P_ + '.GEOM', 'int-or-tuple geometry arguments (kernel_size, stride, padding, dilation, step, output_size) are subscripted only after `p = np.broadcast_to(p, n)` dominates the use', floor=8)
    for f in funcs:
        gp = [p for p in f.params if p in GEOM]
        if not gp:
            continue
        cfg = CFG(f.node)
        for p in gp:
            subs = [n for n in ast.walk(f.node) if isinstance(n, ast.Subscript) and isinstance(n.value, ast.Name) and n.value.id == p and isinstance(n.ctx, ast.Load)]
            norms = [n for n in body_walk(f.node) if isinstance(n, ast.Assign) and norm(n.targets[0]) == p and isinstance(n.value, ast.Call)
                     and model.resolve(f.mod, n.value.func) == 'numpy.broadcast_to' and n.value.args and norm(n.value.args[0]) == p]
            rebinds = [n for n in body_walk(f.node) if isinstance(n, ast.Assign) and norm(n.targets[0]) == p and n not in norms]
            if not subs:
                continue
            bad = []
            for s in subs:
                st = _stmt(f, s)
                if st is None:
                    continue
                if not any(cfg.dominates(n, st) and n is not st for n in norms):
                    # parameter rebound from a tuple-typed source (e.g. kernel_size = (kH, kW)) is fine
                    if any(cfg.dominates(r, st) and isinstance(r.value, ast.Tuple) for r in rebinds):
                        continue
                    bad.append(norm(s))
            R.ob(P_ + '.GEOM', f.qualname, '%s: %d subscript(s), %d broadcast_to' % (p, len(subs), len(norms)), not bad,
                 '%s may be an int (documented int-or-tuple) and is subscripted (%s) without a dominating np.broadcast_to' % (p, sorted(set(bad))[:3]), f.loc)


