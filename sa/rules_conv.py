"""Rules over conv_tools.py shared by C06 and C16: GEOM typestate, OUTSIZE normal forms, EMPTY guards, pairing / layout / pad-crop."""
import ast
from .core import norm, dotted, names_in, body_walk
from .cfg import CFG, facts_at
from .poly import P, floor, TermBuilder, Unsupported
from .report import Incomplete
from .rules_template import bind_call
from .npcanon import npcall, literal_perm, calls as npcalls

CT = 'synapgrad.conv_tools'
GEOM = {'kernel_size', 'stride', 'padding', 'dilation', 'step', 'output_size'}


def _loc(f, node):
    return '%s:%d' % (f.mod.relpath, getattr(node, 'lineno', f.node.lineno))


def _stmt(f, node):
    for s in ast.walk(f.node):
        if isinstance(s, ast.stmt) and not isinstance(s, (ast.If, ast.For, ast.While, ast.With, ast.Try, ast.FunctionDef)) and any(x is node for x in ast.walk(s)):
            return s


# ------------------------------------------------------------------------------------------------ GEOM
def check_geom(model, R, P_, funcs):
    R.rule(P_ + '.GEOM', 'int-or-tuple geometry arguments (kernel_size, stride, padding, dilation, step, output_size) are subscripted only after `p = np.broadcast_to(p, n)` dominates the use', floor=8)
    for f in funcs:
        gp = [p for p in f.params if p in GEOM]
        if not gp:
            continue
        cfg = CFG(f.node)
        for p in gp:
            subs = [n for n in ast.walk(f.node) if isinstance(n, ast.Subscript) and isinstance(n.value, ast.Name) and n.value.id == p and isinstance(n.ctx, ast.Load)]
            norms = [n for n in body_walk(f.node) if isinstance(n, ast.Assign) and norm(n.targets[0]) == p and isinstance(n.value, ast.Call)
                     and model.resolve(f.mod, n.value.func) == 'numpy.broadcast_to' and n.value.args and norm(n.value.args[0]) == p]
            rebinds = [n for n in body_walk(f.node) if isinstance(n, ast.Assign) and norm(n.targets[0]) == p and n not in norms]
            if not subs:
                continue
            bad = []
            for s in subs:
                st = _stmt(f, s)
                if st is None:
                    continue
                if not any(cfg.dominates(n, st) and n is not st for n in norms):
                    # parameter rebound from a tuple-typed source (e.g. kernel_size = (kH, kW)) is fine
                    if any(cfg.dominates(r, st) and isinstance(r.value, ast.Tuple) for r in rebinds):
                        continue
                    bad.append(norm(s))
            R.ob(P_ + '.GEOM', f.qualname, '%s: %d subscript(s), %d broadcast_to' % (p, len(subs), len(norms)), not bad,
                 '%s may be an int (documented int-or-tuple) and is subscripted (%s) without a dominating np.broadcast_to' % (p, sorted(set(bad))[:3]), f.loc)


# ------------------------------------------------------------------------------------------------ OUTSIZE
def _ref(L, p, d, k, s):
    return floor((L + 2 * p - d * (k - 1) - 1) / s) + 1


def _build(model, f, upto_lineno=None, extra_atoms=None):
    """forward-substitute single-assignment scalar locals of f into POLY terms"""
    env = {}

    def atom_of(e):
        t = norm(e)
        if extra_atoms and t in extra_atoms:
            return extra_atoms[t]
        if isinstance(e, (ast.Attribute, ast.Subscript)):
            return P.atom(t)
        return None
    for n in sorted([x for x in body_walk(f.node) if isinstance(x, ast.Assign) and isinstance(x.targets[0], ast.Name)], key=lambda x: x.lineno):
        if upto_lineno is not None and n.lineno > upto_lineno:
            break
        nm = n.targets[0].id
        if isinstance(n.value, ast.Call) and model.resolve(f.mod, n.value.func) == 'numpy.broadcast_to':
            continue
        try:
            env[nm] = TermBuilder(env, atom_of, model, f.mod).build(n.value)
        except Unsupported:
            env.pop(nm, None)
    return env, atom_of


def check_outsize(model, R, P_):
    R.rule(P_ + '.OUTSIZE', 'every output-size computation has the normal form floor((L + 2p - d(k-1) - 1)/s) + 1 in its own atoms (all variants count windows alike)', floor=8)
    A = P.atom
    sites = []
    f = model.func(CT + '.get_conv1d_output_size')
    rets = [n for n in body_walk(f.node) if isinstance(n, ast.Return)]
    env, atom_of = _build(model, f)
    if rets and isinstance(rets[0].value, ast.Name):
        _b = [n for n in body_walk(f.node) if isinstance(n, ast.Assign) and norm(n.targets[0]) == rets[0].value.id]
        rets = [_b[-1]] if _b else rets
    sites.append((f, rets[0].targets[0].id if rets and isinstance(rets[0], ast.Assign) else '<return>', rets[0].value if rets else None, env, atom_of, _ref(A('input_length'), A('padding'), A('dilation'), A('kernel_size'), A('stride'))))
    for q in ('get_conv2d_output_size', 'im2col_v2', 'col2im_v2'):
        f = model.func(CT + '.' + q)
        env, atom_of = _build(model, f)
        for var, L, i in (('lH', 'H', 0), ('lW', 'W', 1)):
            binds = [n for n in body_walk(f.node) if isinstance(n, ast.Assign) and norm(n.targets[0]) == var]
            sites.append((f, var, binds[0].value if binds else None, env, atom_of,
                          _ref(A(L), A('padding[%d]' % i), A('dilation[%d]' % i), A('kernel_size[%d]' % i), A('stride[%d]' % i))))
    for f, var, expr, env, atom_of, want in sites:
        if expr is None:
            R.incomplete_at(P_ + '.OUTSIZE', f.qualname, 'size computation %s not found' % var)
            continue
        try:
            e2 = {k: v for k, v in env.items() if k != var}
            got = TermBuilder(e2, atom_of, model, f.mod).build(expr)
        except Unsupported as u:
            R.incomplete_at(P_ + '.OUTSIZE', f.qualname, '%s: %s' % (var, u))
            continue
        R.ob(P_ + '.OUTSIZE', f.qualname, '%s = %s' % (var, got.canon()[:140]), got == want, 'documented output length: %s' % want.canon(), _loc(f, expr))
    # extract_windows: vector form over the PADDED extent
    f = model.func(CT + '.extract_windows')
    cfg = CFG(f.node)
    binds = [n for n in body_walk(f.node) if isinstance(n, ast.Assign) and norm(n.targets[0]) == 'out_shape']
    binds.sort(key=lambda n: n.lineno)
    ok = False
    got = None
    if binds:
        v = binds[0].value
        if isinstance(v, ast.Call) and dotted(v.func) == 'tuple' and v.args:
            v = v.args[0]
        try:
            got = TermBuilder({}, lambda e: P.atom(norm(e)) if isinstance(e, (ast.Attribute, ast.Subscript)) else None, model, f.mod).build(v)
            want = floor((P.atom('in_shape') - P.atom('dilation') * (P.atom('kernel_size') - 1) - 1) / P.atom('step')) + 1
            ok = got == want
        except Unsupported as u:
            got = None
    pads = [n for n in body_walk(f.node) if isinstance(n, ast.Assign) and isinstance(n.value, ast.Call) and model.resolve(f.mod, n.value.func) == 'numpy.pad']
    ins = [n for n in body_walk(f.node) if isinstance(n, ast.Assign) and norm(n.targets[0]) == 'in_shape']
    ok_pad = len(pads) == 1 and len(ins) == 1 and binds and cfg.dominates(pads[0], ins[0]) and cfg.dominates(ins[0], binds[0]) and '(padding[d], padding[d])' in norm(pads[0].value) \
        and norm(ins[0].value).replace(' ', '') in ('np.array(a.shape[-len(step):])',)
    R.ob(P_ + '.OUTSIZE', f.qualname, 'out_shape = %s over the padded extent' % (got.canon()[:100] if got is not None else None), ok and bool(ok_pad),
         'window count along each axis must be floor((L + 2p - d(k-1) - 1)/s) + 1 (L + 2p = extent after symmetric np.pad)', f.loc)
    # place_windows / col2im_fast / get_im2col_indices / extract_windows delegate to the shared helpers
    for q, names in (('place_windows', {'get_conv1d_output_size', 'get_conv2d_output_size'}), ('col2im_fast', {'get_conv2d_output_size'}), ('get_im2col_indices', {'get_conv2d_output_size'}),
                     ('extract_windows', {'get_conv1d_output_size', 'get_conv2d_output_size'})):
        f = model.func(CT + '.' + q)
        calls = {dotted(c.func): c for c in ast.walk(f.node) if isinstance(c, ast.Call) and dotted(c.func) in names}
        ok = set(calls) == names
        roles_ok = True
        for nm, c in calls.items():
            callee = model.func(CT + '.' + nm)
            b, _ = bind_call(c, callee)
            for prm in ('kernel_size', 'dilation', 'padding'):
                if prm in b and norm(b[prm]) != prm:
                    roles_ok = False
            if 'stride' in b and norm(b['stride']) not in ('stride', 'step'):
                roles_ok = False
        R.ob(P_ + '.OUTSIZE', f.qualname, 'window count through %s' % sorted(calls), ok and roles_ok, 'the shared output-size helpers must receive each geometry argument in its own role', f.loc)


# ------------------------------------------------------------------------------------------------ EMPTY
def check_empty(model, R, P_):
    R.rule(P_ + '.EMPTY', 'every entry point that computes a window count rejects an empty output with a raise that dominates the array construction', floor=3)
    for q, sink in (('extract_windows', 'as_strided'), ('get_im2col_indices', 'np.repeat'), ('im2col_v2', 'np.zeros')):
        f = model.func(CT + '.' + q)
        cfg = CFG(f.node)
        guards = [n for n in body_walk(f.node) if isinstance(n, ast.If) and n.body and isinstance(n.body[-1], ast.Raise) and isinstance(n.test, ast.Compare) and norm(n.test.left) == 'L'
                  and norm(n.test.comparators[0]) == '0' and isinstance(n.test.ops[0], (ast.LtE, ast.Eq, ast.Lt))]
        sinks = [_stmt(f, c) for c in ast.walk(f.node) if isinstance(c, ast.Call) and sink in norm(c.func)]
        ok = len(guards) == 1 and sinks and all(s is not None and cfg.dominates(guards[0], s) for s in sinks) and not isinstance(guards[0].test.ops[0], ast.Lt)
        R.ob(P_ + '.EMPTY', f.qualname, 'guard `%s`' % (norm(guards[0].test) if guards else None), bool(ok), 'a geometry with no window must raise before any array is built', f.loc)
        if guards and isinstance(guards[0].test.ops[0], ast.Eq):
            R.note('%s tests L == 0 while its siblings test L <= 0 (negative extents reach NumPy, which raises too): sibling inconsistency, not a violation' % q)


# ------------------------------------------------------------------------------------------------ C16 pairing / layout
def check_pairs(model, R, P_):
    R.rule(P_ + '.PAIR-INDEX', 'im2col gathers and col2im scatter-adds through the index triple of the same helper called with the same argument roles', floor=3)
    R.rule(P_ + '.PAIR-SLICE', 'im2col_v2 and col2im_v2 use polynomially equal window slices and the same column index', floor=7)
    R.rule(P_ + '.PAIR-FAST', 'im2col_fast / col2im_fast hand identical geometry roles to extract_windows / place_windows and use mutually inverse reshapes / axis moves', floor=4)
    R.rule(P_ + '.PADCROP', 'padding added as (p, p) per axis is removed by the crop p : size_with_pad - p in every col2im variant; pad_value is forwarded by every im2col variant', floor=6)
    R.rule(P_ + '.LAYOUT2D', 'the 2-D column layout is produced by transpose(1, 2, 0).reshape(C*kH*kW, -1) and inverted by reshape(C*kH*kW, -1, N).transpose(2, 0, 1)', floor=4)
    im, co = model.func(CT + '.im2col'), model.func(CT + '.col2im')
    idx = model.func(CT + '.get_im2col_indices')
    calls = []
    for f in (im, co):
        cs = [c for c in ast.walk(f.node) if isinstance(c, ast.Call) and dotted(c.func) == 'get_im2col_indices']
        if len(cs) != 1:
            R.incomplete_at(P_ + '.PAIR-INDEX', f.qualname, 'call of get_im2col_indices not found')
            return
        b, _ = bind_call(cs[0], idx)
        calls.append({k: norm(v) for k, v in b.items()})
    roles = {k: (calls[0].get(k), calls[1].get(k)) for k in ('kernel_size', 'dilation', 'stride', 'padding')}
    R.ob(P_ + '.PAIR-INDEX', co.qualname, 'index helper roles %s' % roles, all(a == b == k for k, (a, b) in roles.items()), 'gather and scatter must use the index set of the same geometry', co.loc)
    shape_ok = calls[0].get('a_shape') in ('a.shape',) and calls[1].get('a_shape') in ('(N, C, H, W)', 'output_shape')
    R.ob(P_ + '.PAIR-INDEX', co.qualname, 'index helper shapes %s / %s' % (calls[0].get('a_shape'), calls[1].get('a_shape')), shape_ok, 'indices must be computed for the un-padded image shape on both sides', co.loc)
    gather = [n for n in ast.walk(im.node) if isinstance(n, ast.Subscript) and norm(n.value) == 'x_padded']
    scat = [c for c in ast.walk(co.node) if isinstance(c, ast.Call) and norm(c.func) == 'np.add.at']
    ok = len(gather) == 1 and len(scat) == 1 and norm(gather[0].slice).replace(' ', '') in ('(slice(None,None,None),k,i,j)', ':,k,i,j', '(:,k,i,j)') \
        and norm(scat[0].args[1]).replace(' ', '') == '(slice(None),k,i,j)' and norm(scat[0].args[0]) == 'output'
    R.ob(P_ + '.PAIR-INDEX', co.qualname, 'gather x_padded[:, k, i, j] / scatter np.add.at(output, (slice(None), k, i, j), ...)', ok, 'the same (k, i, j) triple in the same positions, scatter accumulating', co.loc)
    # ---- PAIR-SLICE
    v2i, v2c = model.func(CT + '.im2col_v2'), model.func(CT + '.col2im_v2')
    terms = []
    for f in (v2i, v2c):
        loops = [n for n in ast.walk(f.node) if isinstance(n, ast.For) and norm(n.iter) == 'range(lH)']
        inner = [n for l in loops for n in ast.walk(l) if isinstance(n, ast.For) and norm(n.iter) == 'range(lW)']
        if not inner:
            R.incomplete_at(P_ + '.PAIR-SLICE', f.qualname, 'window loops not found')
            return
        env = {}
        atom_of = lambda e: P.atom(norm(e)) if isinstance(e, (ast.Attribute, ast.Subscript)) else None
        d = {}
        for n in inner[0].body:
            if isinstance(n, ast.Assign) and isinstance(n.targets[0], ast.Name):
                try:
                    d[n.targets[0].id] = TermBuilder(d, atom_of).build(n.value)
                except Unsupported:
                    pass
        col = [norm(x.slice.elts[-1]) for x in ast.walk(inner[0]) if isinstance(x, ast.Subscript) and isinstance(x.slice, ast.Tuple) and isinstance(x.slice.elts[-1], ast.BinOp)]
        win = [norm(x.slice) for x in ast.walk(inner[0]) if isinstance(x, ast.Subscript) and 'h_start' in norm(x.slice)]
        terms.append((d, col, win))
    for nm in ('h_start', 'h_end', 'h_step', 'w_start', 'w_end', 'w_step'):
        a, b = terms[0][0].get(nm), terms[1][0].get(nm)
        R.ob(P_ + '.PAIR-SLICE', v2c.qualname, '%s: %s' % (nm, a.canon() if a is not None else None), a is not None and a == b, 'both variants must address the same window (got %s vs %s)' % (a.canon() if a is not None else None, b.canon() if b is not None else None), v2c.loc)
    i, j, s0, s1, k0, k1, d0, d1 = [P.atom(x) for x in ('i', 'j', 'stride[0]', 'stride[1]', 'kernel_size[0]', 'kernel_size[1]', 'dilation[0]', 'dilation[1]')]
    wantd = {'h_start': i * s0, 'h_end': i * s0 + d0 * (k0 - 1) + 1, 'h_step': d0, 'w_start': j * s1, 'w_end': j * s1 + d1 * (k1 - 1) + 1, 'w_step': d1}
    okw = all(terms[0][0].get(k) == v for k, v in wantd.items())
    cols = set(terms[0][1]) | set(terms[1][1])
    okw = okw and bool(terms[0][1]) and bool(terms[1][1])
    wins = set(terms[0][2]) | set(terms[1][2])
    R.ob(P_ + '.PAIR-SLICE', v2i.qualname, 'window = [i*s : i*s + d*(k-1) + 1 : d], column %s, slices %s' % (sorted(cols), sorted(wins)), okw and cols == {'i * lW + j'} and len(wins) == 1,
         'window i, j covers rows i*s .. i*s + d(k-1) step d and lands in column i*lW + j (row-major block order)', v2i.loc)
    # ---- PAIR-FAST
    fi, fc = model.func(CT + '.im2col_fast'), model.func(CT + '.col2im_fast')
    ew = [c for c in ast.walk(fi.node) if isinstance(c, ast.Call) and dotted(c.func) == 'extract_windows']
    pw = [c for c in ast.walk(fc.node) if isinstance(c, ast.Call) and dotted(c.func) == 'place_windows']
    if len(ew) == 1 and len(pw) == 1:
        eb, _ = bind_call(ew[0], model.func(CT + '.extract_windows'))
        pb, _ = bind_call(pw[0], model.func(CT + '.place_windows'))
        roles = {k: (norm(eb.get(k)) if k in eb else None, norm(pb.get(k)) if k in pb else None) for k in ('kernel_size', 'step', 'padding', 'dilation')}
        ok = all(a == b and a is not None for a, b in roles.values()) and roles['step'][0] == 'stride'
        R.ob(P_ + '.PAIR-FAST', fc.qualname, 'geometry roles %s' % roles, ok, 'extract_windows and place_windows must receive the same argument in each role (step = stride)', fc.loc)
        R.ob(P_ + '.PAIR-FAST', fi.qualname, 'pad_value forwarded: %s' % (norm(eb['pad_value']) if 'pad_value' in eb else None), norm(eb.get('pad_value')) == 'pad_value' if 'pad_value' in eb else False, 'the caller\'s pad value must reach the extractor', fi.loc)
    else:
        R.incomplete_at(P_ + '.PAIR-FAST', fc.qualname, 'extract_windows / place_windows calls not found')
    mv_i = [c for c in ast.walk(fi.node) if isinstance(c, ast.Call) and norm(c.func) == 'np.moveaxis']
    mv_c = [c for c in ast.walk(fc.node) if isinstance(c, ast.Call) and norm(c.func) == 'np.moveaxis']
    ok = len(mv_i) == 1 and len(mv_c) == 1 and [norm(a) for a in mv_i[0].args[1:]] == ['0', '2'] and [norm(a) for a in mv_c[0].args[1:]] == ['2', '0']
    R.ob(P_ + '.PAIR-FAST', fc.qualname, 'unfold layout: moveaxis(0 -> 2) / moveaxis(2 -> 0)', ok, 'the window axis move of im2col_fast must be undone by the inverse move in col2im_fast', fc.loc)
    t_i = [n for n in ast.walk(fi.node) if isinstance(n, ast.Attribute) and n.attr == 'T']
    t_c = [n for n in ast.walk(fc.node) if isinstance(n, ast.Attribute) and n.attr == 'T']
    rs_i = [norm(npcall(model, fi, c)[1].get('newshape')).replace(' ', '') for c in npcalls(model, fi, 'reshape') if npcall(model, fi, c)[1].get('newshape') is not None]
    rs_c = [norm(npcall(model, fc, c)[1].get('newshape')).replace(' ', '') for c in npcalls(model, fc, 'reshape') if npcall(model, fc, c)[1].get('newshape') is not None]
    ok = len(t_i) == 1 and len(t_c) == 1 and '(N*L,C*kernel_size[0]*kernel_size[1])' in rs_i and rs_c.count('(lH,lW,N,C,kernel_size[0],kernel_size[1])') == 2
    R.ob(P_ + '.PAIR-FAST', fc.qualname, '2-D layout: reshape(N*L, CkHkW).T / .T.reshape(lH, lW, N, C, kH, kW)', ok, 'the column-matrix layout and its inverse', fc.loc)
    # ---- PADCROP
    for q in ('col2im', 'col2im_v2'):
        f = model.func(CT + '.' + q)
        crops = [n for n in body_walk(f.node) if isinstance(n, ast.Assign) and norm(n.targets[0]) == 'output' and isinstance(n.value, ast.Subscript) and norm(n.value.value) == 'output']
        ok = len(crops) == 1 and norm(crops[0].value.slice).replace(' ', '') in ('(:,:,padding[0]:H_with_pad-padding[0],padding[1]:W_with_pad-padding[1])', ':,:,padding[0]:H_with_pad-padding[0],padding[1]:W_with_pad-padding[1]')
        hw = {norm(n.targets[0]): norm(n.value) for n in body_walk(f.node) if isinstance(n, ast.Assign) and norm(n.targets[0]) in ('H_with_pad', 'W_with_pad')}
        ok = ok and hw == {'H_with_pad': 'H + 2 * padding[0]', 'W_with_pad': 'W + 2 * padding[1]'}
        R.ob(P_ + '.PADCROP', f.qualname, 'crop %s' % (norm(crops[0].value.slice)[:80] if crops else None), ok, 'the buffer is allocated with (p, p) padding per axis and the result is the crop p : size_with_pad - p', f.loc)
    pwf = model.func(CT + '.place_windows')
    crops = [n for n in body_walk(pwf.node) if isinstance(n, ast.Assign) and norm(n.targets[0]) == 'no_pads']
    ok = len(crops) == 1 and norm(crops[0].value).replace(' ', '') == 'tuple((slice(p,-pifpelseNone)forpinpadding))'
    R.ob(P_ + '.PADCROP', pwf.qualname, 'crop %s' % (norm(crops[0].value)[:80] if crops else None), ok, 'place_windows removes exactly the padding it allocated (slice(p, -p) per axis, None when p == 0)', pwf.loc)
    for q in ('im2col', 'im2col_v2', 'extract_windows'):
        f = model.func(CT + '.' + q)
        pads = [c for c in ast.walk(f.node) if isinstance(c, ast.Call) and norm(c.func) == 'np.pad']
        ok = len(pads) == 1 and any(k.arg == 'constant_values' and norm(k.value) == 'pad_value' for k in pads[0].keywords) and '(padding[d], padding[d])' in norm(pads[0]) \
            and "mode='constant'" in norm(pads[0])
        R.ob(P_ + '.PADCROP', f.qualname, norm(pads[0])[:90] if pads else 'no pad', ok, 'symmetric constant padding with the caller\'s pad_value on the spatial axes only', f.loc)
    # ---- LAYOUT2D
    for q in ('im2col', 'im2col_v2'):
        f = model.func(CT + '.' + q)
        perms = [(literal_perm(model, f, c), c) for c in ast.walk(f.node) if isinstance(c, ast.Call) and literal_perm(model, f, c) is not None]
        resh = []
        for c in npcalls(model, f, 'reshape'):
            ns = npcall(model, f, c)[1].get('newshape')
            if ns is not None and isinstance(ns, ast.Tuple) and len(ns.elts) == 2 and norm(ns.elts[1]) == '-1':
                try:
                    t = TermBuilder({}, lambda e: P.atom(norm(e)) if isinstance(e, (ast.Attribute, ast.Subscript)) else None).build(ns.elts[0])
                    resh.append((t, c))
                except Unsupported:
                    pass
        want = P.atom('C') * P.atom('kernel_size[0]') * P.atom('kernel_size[1]')
        ok = [p for (p, _), _ in perms] == [(1, 2, 0)] and len(resh) == 1 and resh[0][0] == want
        # the reshape is applied to the transposed array
        if ok:
            a0 = npcall(model, f, resh[0][1])[1].get('a')
            ok = any(x is perms[0][1] for x in ast.walk(a0)) or (isinstance(a0, ast.Name) and any(isinstance(n, ast.Assign) and norm(n.targets[0]) == a0.id and any(x is perms[0][1] for x in ast.walk(n.value)) for n in body_walk(f.node)))
        st = _stmt(f, perms[0][1]) if perms else None
        cfg = CFG(f.node)
        guard_ok = st is not None and ('as_unfold', False) in {(t, p) for t, p, _ in facts_at(cfg, st)}
        R.ob(P_ + '.LAYOUT2D', f.qualname, '2-D layout transpose%s then reshape(C*kH*kW, -1)' % ([p for (p, _), _ in perms],), ok and guard_ok,
             'the (C*kH*kW, N*L) matrix is transpose(1, 2, 0).reshape(C*kH*kW, -1) of the unfold layout, only when as_unfold is False', f.loc)
    for q in ('col2im', 'col2im_v2'):
        f = model.func(CT + '.' + q)
        perms = [literal_perm(model, f, c)[0] for c in ast.walk(f.node) if isinstance(c, ast.Call) and literal_perm(model, f, c) is not None]
        resh = []
        for c in npcalls(model, f, 'reshape'):
            ns = npcall(model, f, c)[1].get('newshape')
            if ns is not None and isinstance(ns, ast.Tuple) and len(ns.elts) == 3 and norm(ns.elts[1]) == '-1' and norm(ns.elts[2]) == 'N':
                try:
                    resh.append(TermBuilder({}, lambda e: P.atom(norm(e)) if isinstance(e, (ast.Attribute, ast.Subscript)) else None).build(ns.elts[0]))
                except Unsupported:
                    pass
        want = P.atom('C') * P.atom('kernel_size[0]') * P.atom('kernel_size[1]')
        ok = perms == [(2, 0, 1)] and len(resh) == 1 and resh[0] == want
        R.ob(P_ + '.LAYOUT2D', f.qualname, 'inverse 2-D layout reshape(C*kH*kW, -1, N) then transpose%s' % perms, ok, 'the column matrix is brought back by reshape(C*kH*kW, -1, N).transpose(2, 0, 1) (inverse of transpose(1, 2, 0))', f.loc)


# ------------------------------------------------------------------------------------------------ STRIDED
def check_strided(model, R, P_):
    """the byte strides of the sliding-window view are computed for a C-contiguous array"""
    R.rule(P_ + '.STRIDED', 'the array handed to as_strided (and whose row-major strides are computed by hand) is made C-contiguous first; element size comes from the array\'s own strides', floor=2)
    f = model.func(CT + '.extract_windows')
    cfg = CFG(f.node)
    asv = [c for c in ast.walk(f.node) if isinstance(c, ast.Call) and norm(c.func).endswith('as_strided')]
    cont = [n for n in body_walk(f.node) if isinstance(n, ast.Assign) and isinstance(n.value, ast.Call) and model.resolve(f.mod, n.value.func) == 'numpy.ascontiguousarray'
            and norm(n.targets[0]) == norm(n.value.args[0]) == f.pos_params[0]]
    ok = len(asv) == 1 and len(cont) == 1
    if ok:
        st = _stmt(f, asv[0])
        conds = {(t, p) for t, p, _ in facts_at(cfg, cont[0])}
        guard_ok = not conds or conds == {("a.flags['C_CONTIGUOUS']", False)}
        top = cont[0]
        for s_ in f.node.body:
            if any(x is cont[0] for x in ast.walk(s_)):
                top = s_
        ok = guard_ok and cfg.dominates(top, st) and norm(asv[0].args[0]) == f.pos_params[0]
    R.ob(P_ + '.STRIDED', f.qualname, 'ascontiguousarray guard before as_strided', ok,
         'hand-computed row-major strides are only valid for a C-contiguous array (np.pad keeps Fortran order, so padding alone is not enough)', f.loc)
    nb = [n for n in body_walk(f.node) if isinstance(n, ast.Assign) and norm(n.targets[0]) == 'nbyte']
    R.ob(P_ + '.STRIDED', f.qualname, norm(nb[0]) if nb else 'no element size', len(nb) == 1 and norm(nb[0].value) in ('a.strides[-1]',), 'the element stride must be taken from the (contiguous) array itself', f.loc)
