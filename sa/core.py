"""Program model of /repo/synapgrad built from source only (ast); nothing is imported or run.

Model
  .modules   modname -> Mod(tree, path, source)
  .funcs     qualname -> Func (module-level functions, methods, nested closures)
  .classes   qualname -> Cls (with resolved bases / MRO inside the package)
  .resolve(mod, expr) -> dotted name of an expression built from Name/Attribute, through import
                         aliases and package re-exports ('cpu_ops.add_forward' -> 'synapgrad.cpu_ops.add_forward',
                         'np.zeros' -> 'numpy.zeros')
"""
import ast, os, sys

REPO = os.environ.get('SA_REPO', '/repo')
PKG = 'synapgrad'
MIN_FILES = 21          # files of the package on the pinned tree; fewer parsed = analysis broken


class AnalysisError(Exception):
    """The analysis itself cannot proceed (vanished anchor, unparsable file, unknown idiom)."""


class Mod:
    def __init__(self, modname, path, relpath, source, tree):
        self.modname, self.path, self.relpath, self.source, self.tree = modname, path, relpath, source, tree
        self.aliases = {}       # local name -> dotted target
        self.globals = {}       # module-level simple assignments name -> value node

    def __repr__(self):
        return '<Mod %s>' % self.modname


class Func:
    def __init__(self, qualname, node, mod, parent=None, cls=None):
        self.qualname, self.node, self.mod, self.parent, self.cls = qualname, node, mod, parent, cls
        self.name = node.name
        self.inlined_everywhere = bool(getattr(node, '_sa_inlined_everywhere', False))     # private helper whose every use was inlined by normalize.py

    @property
    def loc(self):
        return '%s:%d' % (self.mod.relpath, self.node.lineno)

    @property
    def params(self):
        a = self.node.args
        return [x.arg for x in a.posonlyargs + a.args] + ([a.vararg.arg] if a.vararg else []) + \
               [x.arg for x in a.kwonlyargs] + ([a.kwarg.arg] if a.kwarg else [])

    @property
    def pos_params(self):
        a = self.node.args
        return [x.arg for x in a.posonlyargs + a.args]

    def defaults(self):
        """param name -> default node"""
        a = self.node.args
        pos = a.posonlyargs + a.args
        d = {}
        for p, v in zip(pos[len(pos) - len(a.defaults):], a.defaults):
            d[p.arg] = v
        for p, v in zip(a.kwonlyargs, a.kw_defaults):
            if v is not None:
                d[p.arg] = v
        return d

    def __repr__(self):
        return '<Func %s>' % self.qualname


class Cls:
    def __init__(self, qualname, node, mod):
        self.qualname, self.node, self.mod = qualname, node, mod
        self.name = node.name
        self.bases = []         # dotted names
        self.methods = {}       # name -> Func

    @property
    def loc(self):
        return '%s:%d' % (self.mod.relpath, self.node.lineno)


class Model:
    def __init__(self, repo=None, with_tests=False):
        self.repo = repo or REPO
        self.modules, self.funcs, self.classes = {}, {}, {}
        self.parse_errors = []
        self._load()

    # ---------------------------------------------------------------- loading
    def _load(self):
        root = os.path.join(self.repo, PKG)
        if not os.path.isdir(root):
            raise AnalysisError('package directory %s not found' % root)
        for dirpath, dirnames, filenames in os.walk(root):
            dirnames[:] = sorted(d for d in dirnames if d != '__pycache__')
            for fn in sorted(filenames):
                if not fn.endswith('.py'):
                    continue
                path = os.path.join(dirpath, fn)
                rel = os.path.relpath(path, self.repo)
                modname = rel[:-3].replace(os.sep, '.')
                if modname.endswith('.__init__'):
                    modname = modname[:-9]
                try:
                    src = open(path, encoding='utf-8').read()
                    tree = ast.parse(src, filename=path)
                except (SyntaxError, UnicodeDecodeError, OSError) as e:
                    self.parse_errors.append((rel, str(e)))
                    continue
                mod = Mod(modname, path, rel, src, tree)
                mod.is_pkg = fn == '__init__.py'
                self.modules[modname] = mod
        if self.parse_errors:
            raise AnalysisError('files that do not parse: %s' % self.parse_errors)
        if os.environ.get('SA_NO_NORMALIZE') != '1':
            from .normalize import normalize_module
            _splice_private_modules(self.modules)
            for mod in self.modules.values():
                mod.tree = _normalized(mod, normalize_module)
        if len(self.modules) < MIN_FILES:
            raise AnalysisError('only %d package files parsed, expected >= %d' % (len(self.modules), MIN_FILES))
        for mod in self.modules.values():
            self._index_module(mod)
        for c in self.classes.values():
            c.bases = [self.resolve(c.mod, b) or ast.unparse(b) for b in c.node.bases]
        self._register_reexports()
        if os.environ.get('SA_NO_NORMALIZE') != '1':
            self._canonical_kernel_params()

    def _register_reexports(self):
        """a function / class that was moved into another module of the package and is imported back (`from ._shapes import unbroadcast`) stays reachable under its
        old qualified name: anchors of the rules name functions by the module that exposes them"""
        self.reexported = {}
        self._alias_names = set()
        for _ in range(2):      # chains of two re-exports
            for mod in self.modules.values():
                for alias, target in list(mod.aliases.items()):
                    q = mod.modname + '.' + alias
                    if target in self.funcs and q not in self.funcs and self.funcs[target].parent is None:
                        self.funcs[q] = self.funcs[target]
                        self._alias_names.add(q)
                        self.reexported.setdefault(mod.modname, []).append((alias, target))
                    if target in self.classes and q not in self.classes:
                        self.classes[q] = self.classes[target]
                        self._alias_names.add(q)

    # ---------------------------------------------------------------- kernel parameter roles
    def _canonical_kernel_params(self):
        """The rule tables name the parameters of the internal NumPy kernels (cpu_ops / conv_tools) by the names recorded in sa/param_roles.json.  A kernel whose
        positional parameters were renamed (same arity, same order) gets them renamed back - in its body and at every call site that passes them by keyword -
        so that a pure renaming is invisible to the rules.  A kernel whose arity changed is left alone (the rules then see what is there)."""
        import json
        path = os.path.join(os.path.dirname(os.path.abspath(__file__)), 'param_roles.json')
        try:
            roles = json.load(open(path))
        except (OSError, ValueError):
            return
        from .normalize import _Rename
        renamed = {}
        for q, spec in roles.items():
            f = self.funcs.get(q)
            if f is None or f.parent is not None:
                continue
            a = f.node.args
            cur = [x.arg for x in a.posonlyargs + a.args]
            want = spec['pos']
            if cur == want or len(cur) != len(want) or (a.vararg is not None) != (spec['vararg'] is not None) or len(a.kwonlyargs) != len(spec['kwonly']):
                continue
            mapping = {c: w for c, w in zip(cur, want) if c != w}
            # a parameter whose ROLE changed is not a renaming: a former `*_shape` (tuple) parameter that is now written through / annotated as an array keeps its new name
            from .domains.alias import _used_as_array
            if any(w.endswith('_shape') and _used_as_array(f.node, c) for c, w in mapping.items()):
                continue
            # locals of the body that already use a canonical name step aside first
            body_names = {n.id for st in f.node.body for n in ast.walk(st) if isinstance(n, ast.Name)}
            nested_args = {n.arg for st in f.node.body for n in ast.walk(st) if isinstance(n, ast.arg)}
            clash = (set(mapping.values()) & (body_names | nested_args)) - set(cur)
            step = {c: c + '__loc' for c in clash}
            if any(v in body_names for v in step.values()):
                continue
            tmp = {c: '__kp%d' % i for i, c in enumerate(mapping)}
            for mp in ([step] if step else []) + [tmp, {tmp[c]: w for c, w in mapping.items()}]:
                rn = _Rename(dict(mp))
                f.node.body = [rn.visit(st) for st in f.node.body]
                f.node.args.defaults = [rn.visit(d) for d in f.node.args.defaults]
                for x in a.posonlyargs + a.args:
                    if x.arg in mp:
                        x.arg = mp[x.arg]
            ast.fix_missing_locations(f.node)
            renamed[q] = mapping
        if not renamed:
            return
        for mod in self.modules.values():
            for n in ast.walk(mod.tree):
                if isinstance(n, ast.Call) and n.keywords:
                    q = self.resolve(mod, n.func)
                    if q in renamed:
                        for k in n.keywords:
                            if k.arg in renamed[q]:
                                k.arg = renamed[q][k.arg]
        self.renamed_kernel_params = renamed

    def _index_module(self, mod):
        pkgparts = mod.modname.split('.') if mod.is_pkg else mod.modname.split('.')[:-1]
        for node in ast.walk(mod.tree):
            if isinstance(node, ast.Import):
                for a in node.names:
                    if a.asname:
                        mod.aliases[a.asname] = a.name
                    else:
                        mod.aliases[a.name.split('.')[0]] = a.name.split('.')[0]
            elif isinstance(node, ast.ImportFrom):
                base = node.module or ''
                if node.level:
                    up = pkgparts[:len(pkgparts) - (node.level - 1)]
                    base = '.'.join(up + ([base] if base else []))
                for a in node.names:
                    mod.aliases[a.asname or a.name] = base + '.' + a.name
            elif isinstance(node, ast.Assign) and len(node.targets) == 1 and isinstance(node.targets[0], ast.Name):
                # X = importlib.import_module("pkg.mod")  (lazy import idiom in tensor.py)
                v = node.value
                if isinstance(v, ast.Call) and ast.unparse(v.func) in ('importlib.import_module', 'import_module') \
                        and v.args and isinstance(v.args[0], ast.Constant) and isinstance(v.args[0].value, str):
                    mod.aliases[node.targets[0].id] = v.args[0].value
        for node in mod.tree.body:
            if isinstance(node, ast.Assign) and len(node.targets) == 1 and isinstance(node.targets[0], ast.Name):
                mod.globals.setdefault(node.targets[0].id, node.value)
            elif isinstance(node, ast.AnnAssign) and isinstance(node.target, ast.Name) and node.value is not None:
                mod.globals.setdefault(node.target.id, node.value)
        self._index_body(mod, mod.tree.body, mod.modname, None, None)

    def _index_body(self, mod, body, prefix, parent, cls):
        for node in body:
            if isinstance(node, (ast.FunctionDef, ast.AsyncFunctionDef)):
                q = prefix + '.' + node.name
                if q in self.funcs:     # property getter/setter pairs: keep both, setter under .setter suffix
                    kind = 'setter' if any(isinstance(d, ast.Attribute) and d.attr == 'setter' for d in node.decorator_list) else 'dup%d' % node.lineno
                    q = q + '.' + kind
                f = Func(q, node, mod, parent, cls)
                self.funcs[q] = f
                if cls is not None and parent is None:
                    cls.methods.setdefault(node.name if not q.endswith('.setter') else node.name + '.setter', f)
                self._index_nested(mod, node, q, f, cls)
            elif isinstance(node, ast.ClassDef):
                q = prefix + '.' + node.name
                c = Cls(q, node, mod)
                self.classes[q] = c
                self._index_body(mod, node.body, q, None, c)
            elif isinstance(node, (ast.If, ast.Try, ast.With)):
                for sub in ast.iter_child_nodes(node):
                    if isinstance(sub, list):
                        pass
                for field in ('body', 'orelse', 'finalbody'):
                    self._index_body(mod, getattr(node, field, []) or [], prefix, parent, cls)

    def _index_nested(self, mod, fnode, prefix, parent, cls):
        for node in ast.walk(fnode):
            if node is fnode:
                continue
            if isinstance(node, (ast.FunctionDef, ast.AsyncFunctionDef)) and self._direct_parent_func(fnode, node):
                q = prefix + '.' + node.name
                if q in self.funcs:
                    q = q + '.dup%d' % node.lineno
                f = Func(q, node, mod, parent, cls)
                self.funcs[q] = f
                self._index_nested(mod, node, q, f, cls)

    @staticmethod
    def _direct_parent_func(outer, inner):
        """inner is nested in outer with no other function in between"""
        def walk(n):
            for ch in ast.iter_child_nodes(n):
                if ch is inner:
                    return True
                if isinstance(ch, (ast.FunctionDef, ast.AsyncFunctionDef, ast.Lambda, ast.ClassDef)):
                    continue
                if walk(ch):
                    return True
            return False
        return walk(outer)

    def add_fixture_module(self, modname, source):
        """index an extra module from source text (positive-control fixtures of zero-expected rules; never part of /repo)"""
        tree = ast.parse(source)
        mod = Mod(modname, '<fixture>', '<fixture:%s>' % modname, source, tree)
        mod.is_pkg = False
        self.modules[modname] = mod
        self._index_module(mod)
        return mod

    # ---------------------------------------------------------------- lookups
    def func(self, qualname):
        f = self.funcs.get(qualname)
        if f is None:
            raise AnalysisError('anchor function %s not found in %s' % (qualname, self.repo))
        return f

    def cls(self, qualname):
        c = self.classes.get(qualname)
        if c is None:
            raise AnalysisError('anchor class %s not found in %s' % (qualname, self.repo))
        return c

    def mod(self, modname):
        m = self.modules.get(modname)
        if m is None:
            raise AnalysisError('anchor module %s not found in %s' % (modname, self.repo))
        return m

    def module_functions(self, modname, dead=False):
        """module-level functions; a private helper that was inlined at every use (its body now lives in its callers) is skipped unless dead=True"""
        m = self.mod(modname)
        fs = [self.funcs[modname + '.' + n.name] for n in m.tree.body if isinstance(n, ast.FunctionDef)]
        # functions that live in a private sibling module and are imported back belong to this module's interface as before
        for alias, target in getattr(self, 'reexported', {}).get(modname, []):
            tm = target.rsplit('.', 1)[0]
            if tm.rsplit('.', 1)[-1].startswith('_') and self.funcs[target] not in fs:
                fs.append(self.funcs[target])
        return fs if dead else [f for f in fs if not f.inlined_everywhere]

    def live_funcs(self):
        """every function / method / closure except private helpers that were inlined at every use (and the closures nested in them)"""
        out, seen = [], set()
        for f in self.funcs.values():
            if id(f) in seen:
                continue        # the same function registered under a re-exported name
            seen.add(id(f))
            g, deadf = f, False
            while g is not None:
                if g.inlined_everywhere:
                    deadf = True
                g = g.parent
            if not deadf:
                out.append(f)
        return out

    def nested(self, func):
        out, seen = [], set()
        for f in self.funcs.values():
            if f.parent is func and id(f) not in seen:
                seen.add(id(f))
                out.append(f)
        return out

    def mro(self, cls):
        """linearised bases inside the package (single inheritance chains are all the repo uses)"""
        out, seen, todo = [], set(), [cls]
        while todo:
            c = todo.pop(0)
            if c.qualname in seen:
                continue
            seen.add(c.qualname)
            out.append(c)
            for b in c.bases:
                bc = self.classes.get(self.canonical(b))
                if bc is not None:
                    todo.append(bc)
        return out

    def subclasses(self, base_qualname):
        return [c for c in self.classes.values() if any(b.qualname == base_qualname for b in self.mro(c)[1:])]

    def find_method(self, cls, name):
        for c in self.mro(cls):
            if name in c.methods:
                return c.methods[name]
        return None

    # ---------------------------------------------------------------- name resolution
    def canonical(self, dotted, depth=0):
        """follow package re-exports: 'synapgrad.no_grad' -> 'synapgrad.tensor.no_grad'"""
        if dotted is None or depth > 8:
            return dotted
        if (dotted in self.funcs or dotted in self.classes) and dotted not in getattr(self, '_alias_names', ()):
            return dotted
        parts = dotted.split('.')
        if dotted in self.modules:
            # a package attribute re-exported by __init__ shadows the submodule of the same name
            # (synapgrad.tensor is the function `tensor`, not the module, because __init__ imports it)
            pkg = self.modules.get('.'.join(parts[:-1]))
            if pkg is not None and getattr(pkg, 'is_pkg', False) and parts[-1] in pkg.aliases:
                tgt = pkg.aliases[parts[-1]]
                if tgt != dotted and (tgt in self.funcs or tgt in self.classes):
                    return tgt
            return dotted
        for i in range(len(parts) - 1, 0, -1):
            head, rest = '.'.join(parts[:i]), parts[i:]
            m = self.modules.get(head)
            if m is not None:
                first = rest[0]
                if first in m.aliases:
                    tgt = m.aliases[first]
                    new = '.'.join([tgt] + rest[1:])
                    if new != dotted:
                        return self.canonical(new, depth + 1)
                return dotted
        return dotted

    def resolve(self, mod, expr):
        """dotted canonical name of a Name/Attribute chain, or None"""
        parts = []
        n = expr
        while isinstance(n, ast.Attribute):
            parts.append(n.attr)
            n = n.value
        if not isinstance(n, ast.Name):
            return None
        root = n.id
        parts.reverse()
        if root in mod.aliases:
            base = mod.aliases[root]
        elif (mod.modname + '.' + root) in self.funcs or (mod.modname + '.' + root) in self.classes:
            base = mod.modname + '.' + root
        else:
            return None
        return self.canonical('.'.join([base] + parts))


# -------------------------------------------------------------------- normal forms of unchanged modules are reused between the variants of a self-test run
_NORM_DIGEST = None


def _normalized(mod, normalize_module):
    """normalize_module(mod.tree), memoised on disk by the exact content of the (spliced) module and of the normaliser's own sources.  Only used when SA_NORM_CACHE=1
    (the self-test analyses hundreds of scratch copies that differ from /repo in one or two files); a plain check of /repo always normalises afresh."""
    if os.environ.get('SA_NORM_CACHE') != '1':
        return normalize_module(mod.tree, mod.modname)
    import hashlib, pickle, tempfile, sys
    global _NORM_DIGEST
    try:
        if _NORM_DIGEST is None:
            h = hashlib.sha256()
            here = os.path.dirname(os.path.abspath(__file__))
            for fn in ('normalize.py', 'lower.py', 'devirt.py', 'core.py'):
                h.update(open(os.path.join(here, fn), 'rb').read())
            _NORM_DIGEST = h.hexdigest()
        key = hashlib.sha256((_NORM_DIGEST + '\0' + mod.modname + '\0' + ast.dump(mod.tree, include_attributes=True)).encode()).hexdigest()
        cdir = os.path.join(tempfile.gettempdir(), 'sa_normcache_%d' % os.getuid())
        path = os.path.join(cdir, key + '.pkl')
        if os.path.exists(path):
            with open(path, 'rb') as fh:
                return pickle.load(fh)
    except Exception:
        return normalize_module(mod.tree, mod.modname)
    tree = normalize_module(mod.tree, mod.modname)
    try:
        os.makedirs(cdir, exist_ok=True)
        old_limit = sys.getrecursionlimit()
        sys.setrecursionlimit(max(old_limit, 20000))
        try:
            data = pickle.dumps(tree, protocol=pickle.HIGHEST_PROTOCOL)
        finally:
            sys.setrecursionlimit(old_limit)
        tmp = path + '.%d.tmp' % os.getpid()
        with open(tmp, 'wb') as fh:
            fh.write(data)
        os.replace(tmp, path)
    except Exception:
        pass
    return tree


# -------------------------------------------------------------------- private modules are part of the module that imports them
def _import_map(mod):
    """top-level name -> dotted target for the import statements of a module (relative imports resolved)"""
    out = {}
    pkgparts = mod.modname.split('.') if getattr(mod, 'is_pkg', False) else mod.modname.split('.')[:-1]
    for node in mod.tree.body:
        if isinstance(node, ast.Import):
            for a in node.names:
                out[a.asname or a.name.split('.')[0]] = a.name if a.asname else a.name.split('.')[0]
        elif isinstance(node, ast.ImportFrom):
            base = node.module or ''
            if node.level:
                up = pkgparts[:len(pkgparts) - (node.level - 1)]
                base = '.'.join(up + ([base] if base else []))
            for a in node.names:
                out[a.asname or a.name] = base + '.' + a.name
    return out


def _splice_private_modules(modules):
    """`from ._helpers import f, g` where _helpers is a private module of the package: the definitions of f and g (and the module-level names of _helpers they use)
    are copied into the importing module in place of the import, so that code moved into a private sibling module is analysed where it is used - the rules anchor on
    the modules that expose a function, and private helpers are inlined by the normaliser.  Done only when every global the moved code reads means the same in
    both modules (same import target) or moves along; otherwise the import is left as it is."""
    import builtins, copy
    imaps = {m.modname: _import_map(m) for m in modules.values()}

    def toplevel(mod):
        d = {}
        for n in mod.tree.body:
            if isinstance(n, (ast.FunctionDef, ast.ClassDef)):
                d[n.name] = n
            elif isinstance(n, ast.Assign) and len(n.targets) == 1 and isinstance(n.targets[0], ast.Name):
                d[n.targets[0].id] = n
        return d
    tops = {m.modname: toplevel(m) for m in modules.values()}

    def free_globals(node):
        bound = set()
        for x in ast.walk(node):
            if isinstance(x, ast.arg):
                bound.add(x.arg)
            elif isinstance(x, ast.Name) and isinstance(x.ctx, (ast.Store, ast.Del)):
                bound.add(x.id)
            elif isinstance(x, (ast.FunctionDef, ast.ClassDef)) and x is not node:
                bound.add(x.name)
        return {x.id for x in ast.walk(node) if isinstance(x, ast.Name) and isinstance(x.ctx, ast.Load) and x.id not in bound and not hasattr(builtins, x.id)}

    for M in list(modules.values()):
        if M.modname.rsplit('.', 1)[-1].startswith('_') and not getattr(M, 'is_pkg', False):
            continue            # private modules themselves are left alone
        mine = tops[M.modname]
        new_body = []
        changed = False
        pkgparts = M.modname.split('.') if getattr(M, 'is_pkg', False) else M.modname.split('.')[:-1]
        for stmt in M.tree.body:
            if not isinstance(stmt, ast.ImportFrom):
                new_body.append(stmt)
                continue
            base = stmt.module or ''
            if stmt.level:
                up = pkgparts[:len(pkgparts) - (stmt.level - 1)]
                base = '.'.join(up + ([base] if base else []))
            P = modules.get(base)
            if P is None or P is M or not base.rsplit('.', 1)[-1].startswith('_') or base.rsplit('.', 1)[-1].startswith('__') or getattr(P, 'is_pkg', False):
                new_body.append(stmt)
                continue
            keep, moved, imports_moved = [], [], []
            for a in stmt.names:
                d = tops[base].get(a.name)
                if d is None or a.name == '*':
                    keep.append(a)
                    continue
                # transitive closure of the module-level names of P the definition uses
                need, todo, ok, carry = {}, [(a.asname or a.name, a.name, d)], True, {}
                while todo and ok:
                    as_name, orig, node = todo.pop()
                    if orig in need:
                        continue
                    need[orig] = (as_name, node)
                    for g in sorted(free_globals(node)):
                        if g == orig or g in need:
                            continue
                        if g in tops[base]:
                            todo.append((g, g, tops[base][g]))
                        elif g in imaps[base]:
                            if g not in imaps[M.modname] and g not in mine:
                                carry[g] = imaps[base][g]       # the import moves along
                            elif imaps[M.modname].get(g) != imaps[base][g]:
                                ok = False
                        else:
                            ok = False
                # name clashes with the importing module's own definitions
                for orig, (as_name, node) in need.items():
                    if as_name in mine and mine[as_name] is not node:
                        ok = False
                if not ok:
                    keep.append(a)
                    continue
                for g, target in carry.items():
                    if '.' in target and target.rsplit('.', 1)[1] == g:
                        imp = ast.ImportFrom(module=target.rsplit('.', 1)[0], names=[ast.alias(name=g, asname=None)], level=0)
                    elif target == g:
                        imp = ast.Import(names=[ast.alias(name=g, asname=None)])
                    elif '.' in target:
                        imp = ast.ImportFrom(module=target.rsplit('.', 1)[0], names=[ast.alias(name=target.rsplit('.', 1)[1], asname=g)], level=0)
                    else:
                        imp = ast.Import(names=[ast.alias(name=target, asname=g)])
                    ast.copy_location(imp, stmt)
                    imports_moved.append(imp)
                    imaps[M.modname][g] = target
                for orig, (as_name, node) in need.items():
                    if as_name in mine:
                        continue
                    c = copy.deepcopy(node)
                    if isinstance(c, (ast.FunctionDef, ast.ClassDef)) and as_name != orig:
                        c.name = as_name
                    if isinstance(c, ast.Assign) and as_name != orig:
                        c.targets[0].id = as_name
                    c._sa_spliced_from = base
                    moved.append(c)
                    mine[as_name] = c
                # a renamed import: uses inside the moved closure keep the original names, so bind the alias as well
            if moved:
                changed = True
                if keep:
                    stmt.names = keep
                    new_body.append(stmt)
                # definitions that other moved definitions depend on come first (constants, then classes / functions in original order)
                moved.sort(key=lambda n: (0 if isinstance(n, ast.Assign) else 1, getattr(n, 'lineno', 0)))
                new_body.extend(imports_moved)
                new_body.extend(moved)
            else:
                new_body.append(stmt)
        if changed:
            M.tree.body = new_body
            ast.fix_missing_locations(M.tree)


# -------------------------------------------------------------------- small ast helpers
def unparse(n):
    try:
        return ast.unparse(n)
    except Exception:
        return '<%s>' % type(n).__name__


def norm(n):
    """normalised one-line text of a statement/expression (construct key: no line numbers)"""
    return ' '.join(unparse(n).split())


def walk_shallow(node):
    """ast.walk over `node` that does not descend into nested function/class/lambda bodies
    (the nested def node itself is yielded)"""
    todo = [node]
    while todo:
        n = todo.pop(0)
        yield n
        if n is not node and isinstance(n, (ast.FunctionDef, ast.AsyncFunctionDef, ast.Lambda, ast.ClassDef)):
            continue
        todo.extend(ast.iter_child_nodes(n))


def body_walk(fnode):
    """all nodes in a function body, not descending into nested defs (but yielding the def node itself)"""
    todo = list(fnode.body)
    while todo:
        n = todo.pop(0)
        yield n
        if isinstance(n, (ast.FunctionDef, ast.AsyncFunctionDef, ast.Lambda, ast.ClassDef)):
            continue
        todo.extend(ast.iter_child_nodes(n))


def calls_in(node, nested=False):
    it = ast.walk(node) if nested else (body_walk(node) if isinstance(node, (ast.FunctionDef, ast.AsyncFunctionDef)) else ast.walk(node))
    return [n for n in it if isinstance(n, ast.Call)]


def names_in(node):
    return {n.id for n in ast.walk(node) if isinstance(n, ast.Name)}


def dotted(expr):
    parts = []
    n = expr
    while isinstance(n, ast.Attribute):
        parts.append(n.attr)
        n = n.value
    if isinstance(n, ast.Name):
        parts.append(n.id)
        return '.'.join(reversed(parts))
    return None


def docstring_free_body(fnode):
    body = list(fnode.body)
    if body and isinstance(body[0], ast.Expr) and isinstance(body[0].value, ast.Constant) and isinstance(body[0].value.value, str):
        body = body[1:]
    return body


def is_const(n, value=...):
    if not isinstance(n, ast.Constant):
        return False
    return value is ... or (n.value == value and type(n.value) is type(value))


# -------------------------------------------------------------------- temporaries
def single_bindings(fnode, phi=False):
    """locals of fnode bound by exactly one plain assignment `name = expr` (never augmented, never a loop / with / comprehension target,
    not a parameter): name -> value expression.  These are temporaries: a use of the name means its value expression.
    With phi=True a name bound exactly once in EACH arm of one if / else (the statement form of `name = a if c else b`) is included with the
    conditional expression as its value."""
    if phi:
        out = single_bindings(fnode)
        a = fnode.args
        params = {x.arg for x in a.posonlyargs + a.args + a.kwonlyargs} | ({a.vararg.arg} if a.vararg else set()) | ({a.kwarg.arg} if a.kwarg else set())
        stores = {}
        for n in ast.walk(fnode):
            if isinstance(n, ast.Name) and isinstance(n.ctx, (ast.Store, ast.Del)):
                stores[n.id] = stores.get(n.id, 0) + 1
        for n in body_walk(fnode):
            if isinstance(n, ast.If) and len(n.body) == 1 and len(n.orelse) == 1 and all(isinstance(x, ast.Assign) and len(x.targets) == 1 and isinstance(x.targets[0], ast.Name)
                                                                                     for x in (n.body[0], n.orelse[0])):
                nm = n.body[0].targets[0].id
                if nm == n.orelse[0].targets[0].id and stores.get(nm) == 2 and nm not in params and nm not in out:
                    out[nm] = ast.copy_location(ast.IfExp(test=n.test, body=n.body[0].value, orelse=n.orelse[0].value), n)
                    ast.fix_missing_locations(out[nm])
        return out
    a = fnode.args
    params = {x.arg for x in a.posonlyargs + a.args + a.kwonlyargs} | ({a.vararg.arg} if a.vararg else set()) | ({a.kwarg.arg} if a.kwarg else set())
    count, value = {}, {}
    for n in body_walk(fnode):
        if isinstance(n, ast.Assign):
            for t in n.targets:
                if isinstance(t, ast.Name):
                    count[t.id] = count.get(t.id, 0) + 1
                    value[t.id] = n.value
                else:
                    for x in ast.walk(t):
                        if isinstance(x, ast.Name) and isinstance(x.ctx, ast.Store):
                            count[x.id] = count.get(x.id, 0) + 2
        elif isinstance(n, (ast.AugAssign, ast.AnnAssign)):
            for x in ast.walk(n.target):
                if isinstance(x, ast.Name):
                    count[x.id] = count.get(x.id, 0) + 2
        elif isinstance(n, (ast.For, ast.AsyncFor)):
            for x in ast.walk(n.target):
                if isinstance(x, ast.Name):
                    count[x.id] = count.get(x.id, 0) + 2
        elif isinstance(n, (ast.With, ast.AsyncWith)):
            for it in n.items:
                if it.optional_vars is not None:
                    for x in ast.walk(it.optional_vars):
                        if isinstance(x, ast.Name):
                            count[x.id] = count.get(x.id, 0) + 2
        elif isinstance(n, ast.NamedExpr):
            count[n.target.id] = count.get(n.target.id, 0) + 2
    return {k: v for k, v in value.items() if count.get(k) == 1 and k not in params}


def inline_expr(fnode, expr, depth=6, bindings=None):
    """copy of expr with temporaries (single_bindings) replaced by their value expressions, recursively"""
    import copy
    b = bindings if bindings is not None else single_bindings(fnode)

    class T(ast.NodeTransformer):
        def __init__(self, d):
            self.d = d

        def visit_Name(self, n):
            if isinstance(n.ctx, ast.Load) and n.id in b and self.d > 0:
                return T(self.d - 1).visit(copy.deepcopy(b[n.id]))
            return n
    return T(depth).visit(copy.deepcopy(expr))


def expand_expression_functions(model, mod, expr, depth=3):
    """copy of expr in which calls of package functions that are one `return E` (after the docstring) are replaced by E with the parameters substituted
    (arguments must be side-effect free: names, attribute chains, constants).  `zeros_like(self, device=d)` -> `Tensor(np.zeros_like(self.data), dtype=None, ...)`.
    Names of E that are globals of the callee's module are only kept when they resolve to the same thing in `mod`."""
    import copy

    def simple(a):
        return all(isinstance(x, (ast.Name, ast.Attribute, ast.Constant, ast.Load)) for x in ast.walk(a))

    class T(ast.NodeTransformer):
        def __init__(self, d):
            self.d = d

        def visit_Call(self, n):
            self.generic_visit(n)
            if self.d <= 0:
                return n
            q = model.resolve(mod, n.func)
            f = model.funcs.get(q) if q else None
            if f is None or f.cls is not None or any(isinstance(a, ast.Starred) for a in n.args) or any(k.arg is None for k in n.keywords):
                return n
            body = [st for st in f.node.body if not (isinstance(st, ast.Expr) and isinstance(st.value, ast.Constant))]
            if len(body) != 1 or not isinstance(body[0], ast.Return) or body[0].value is None or f.node.decorator_list:
                return n
            a = f.node.args
            if a.vararg or a.kwarg or a.posonlyargs:
                return n
            params = [x.arg for x in a.args]
            if len(n.args) > len(params) or not all(simple(x) for x in n.args) or not all(simple(k.value) for k in n.keywords):
                return n
            bound = dict(zip(params, n.args))
            for k in n.keywords:
                if k.arg in bound or k.arg not in params + [x.arg for x in a.kwonlyargs]:
                    return n
                bound[k.arg] = k.value
            for p_, d_ in zip(params[len(params) - len(a.defaults):], a.defaults):
                bound.setdefault(p_, d_)
            for p_, d_ in zip(a.kwonlyargs, a.kw_defaults):
                if d_ is not None:
                    bound.setdefault(p_.arg, d_)
            if any(p_ not in bound for p_ in params + [x.arg for x in a.kwonlyargs]):
                return n
            e = copy.deepcopy(body[0].value)
            # free names of E other than parameters must mean the same in the caller's module
            for x in ast.walk(e):
                if isinstance(x, ast.Name) and x.id not in bound and isinstance(x.ctx, ast.Load):
                    import builtins
                    if hasattr(builtins, x.id):
                        continue
                    if f.mod is not mod and model.resolve(f.mod, x) != model.resolve(mod, x):
                        return n
                if isinstance(x, (ast.Lambda, ast.ListComp, ast.GeneratorExp, ast.SetComp, ast.DictComp)):
                    return n

            class S(ast.NodeTransformer):
                def visit_Name(self, x):
                    if x.id in bound and isinstance(x.ctx, ast.Load):
                        return copy.deepcopy(bound[x.id])
                    return x
            e = S().visit(e)
            return T(self.d - 1).visit(ast.copy_location(e, n))
    return T(depth).visit(copy.deepcopy(expr))
