"""Obligation bookkeeping, known findings, evidence files and exit codes shared by all checks.

exit 0  every obligation discharged (or listed as a known finding -> KNOWN-FINDING line)
exit 1  at least one unlisted violation -> 'VIOLATION property=<id> replay=<path>' per violation
exit 2  the analysis itself is broken / incomplete (ANALYSIS-ERROR / ANALYSIS-INCOMPLETE):
        vanished anchor, unrecognised idiom, instance count below its floor, self-test failure
"""
import json, os, sys, time

VERIF = os.path.dirname(os.path.dirname(os.path.abspath(__file__)))
EVIDENCE_DIR = os.environ.get('SA_EVIDENCE_DIR', os.path.join(VERIF, 'evidence'))
KNOWN = os.path.join(VERIF, 'known_findings.json')


class Incomplete(Exception):
    """an idiom the rule does not know: the rule can neither discharge nor refute (exit 2)"""


class Report:
    def __init__(self, prop, tier='quick', quiet=False):
        self.prop, self.tier, self.quiet = prop, tier, quiet
        self.t0 = time.time()
        self.obligations = []       # dicts: rule, where, construct, ok, detail
        self.incomplete = []        # (rule, where, why)
        self.info = []              # informational strings
        self.counts = {}            # rule -> instances
        self.floors = {}            # rule -> minimum instances
        self.analysed = {}          # free-form: functions analysed etc.
        self.rules = {}             # rule -> one-line statement of the rule
        self.selftest = None

    # ---- recording
    def rule(self, rule, text, floor=1):
        self.rules[rule] = text
        self.floors[rule] = floor
        self.counts.setdefault(rule, 0)

    def ob(self, rule, where, construct, ok, detail='', loc=''):
        """one rule instance. `where` = qualified function/class, `construct` = normalised construct key"""
        self.counts[rule] = self.counts.get(rule, 0) + 1
        self.obligations.append(dict(rule=rule, where=where, construct=construct, ok=bool(ok), detail=detail, loc=loc))
        return bool(ok)

    def incomplete_at(self, rule, where, why):
        self.incomplete.append((rule, where, why))

    def note(self, text):
        self.info.append(text)

    # ---- finishing
    def _known(self):
        try:
            k = json.load(open(KNOWN))
        except FileNotFoundError:
            return []
        return [f for f in k.get('findings', []) if f.get('property') == self.prop]

    def finish(self, explanation, assumptions, technique, extra=None):
        known = self._known()
        viol, kf = [], []
        used = set()
        for o in self.obligations:
            if o['ok']:
                continue
            hit = None
            for i, f in enumerate(known):
                if f['rule'] == o['rule'] and f['where'] == o['where'] and f['construct'] == o['construct']:
                    hit = i
                    break
            if hit is None:
                viol.append(o)
            else:
                used.add(hit)
                kf.append((o, known[hit]))
        below = [(r, self.counts.get(r, 0), fl) for r, fl in self.floors.items() if self.counts.get(r, 0) < fl]
        out = []
        for o, f in kf:
            out.append('KNOWN-FINDING: property=%s %s %s :: %s -- %s' % (self.prop, o['rule'], o['where'], o['construct'], f.get('what', '')))
        replay = os.path.join(EVIDENCE_DIR, '%s.violations.json' % self.prop)
        for o in viol:
            out.append('VIOLATION property=%s replay=%s' % (self.prop, replay))
            out.append('  rule=%s at %s (%s)\n  construct: %s\n  reason: %s' % (o['rule'], o['where'], o['loc'], o['construct'], o['detail']))
        for r, w, why in self.incomplete:
            out.append('ANALYSIS-INCOMPLETE: property=%s rule=%s at %s: %s' % (self.prop, r, w, why))
        for r, c, fl in below:
            out.append('ANALYSIS-ERROR: property=%s rule=%s matched %d instances, floor is %d (anchor vanished?)' % (self.prop, r, c, fl))
        if self.selftest and self.selftest.get('failures'):
            for f in self.selftest['failures']:
                out.append('ANALYSIS-ERROR: property=%s self-test: %s' % (self.prop, f))
        stale = [f for i, f in enumerate(known) if i not in used]
        for f in stale:
            self.info.append('known finding no longer reported (repaired or construct changed): %s %s :: %s' % (f['rule'], f['where'], f['construct']))
        n = len(self.obligations)
        disc = sum(1 for o in self.obligations if o['ok'])
        distinct = len({(o['rule'], o['where'], o['construct']) for o in self.obligations})
        wall = time.time() - self.t0
        samples = []
        seen_rules = set()
        for o in self.obligations:
            if o['rule'] not in seen_rules:
                seen_rules.add(o['rule'])
                samples.append({k: o[k] for k in ('rule', 'where', 'loc', 'construct', 'ok', 'detail')})
        coverage = dict(
            explanation=explanation,
            obligations=n, discharged=disc,
            evaluations=max(n, 1), distinct_nontrivial=distinct,
            rule='one obligation per (rule, function, construct) instance found by parsing /repo on this run; '
                 'distinct = distinct (rule, function, construct-key) triples; every obligation has a real discharge condition '
                 '(rules listed under "rules")',
            samples=samples[:40],
            checker_cmd='/venv/bin/python /verif/sa/check.py %s --tier %s' % (self.prop, self.tier),
            trusted_base=['CPython ast parser', 'the frozen NumPy-API role tables in sa/', 'the rule definitions in DESIGN.md section 3'],
            exhaustive=True,
            rules=self.rules, rule_instance_counts=self.counts, floors=self.floors,
            analysed=self.analysed,
            known_findings=[dict(rule=o['rule'], where=o['where'], construct=o['construct']) for o, f in kf],
            incomplete=[dict(rule=r, where=w, why=y) for r, w, y in self.incomplete],
            informational=self.info[:200],
        )
        if self.selftest is not None:
            coverage['selftest'] = self.selftest
        if extra:
            coverage.update(extra)
        ev = dict(property_id=self.prop, tier=self.tier, seed=int(os.environ.get('VERIF_SEED', '0') or 0), level='other',
                  coverage=coverage, assumptions=assumptions, wall_s=round(wall, 3), violations=len(viol), technique=technique)
        os.makedirs(EVIDENCE_DIR, exist_ok=True)
        with open(os.path.join(EVIDENCE_DIR, '%s.json' % self.prop), 'w') as fh:
            json.dump(ev, fh, indent=1, default=str)
        if viol:
            with open(replay, 'w') as fh:
                json.dump(dict(property_id=self.prop, violations=viol), fh, indent=1, default=str)
        elif os.path.exists(replay):
            os.remove(replay)
        broken = bool(self.incomplete or below or (self.selftest and self.selftest.get('failures')))
        code = 1 if viol else (2 if broken else 0)
        if not self.quiet:
            print('%s [%s] %d obligations, %d discharged, %d known findings, %d violations, %d incomplete (%.2fs)' % (
                self.prop, self.tier, n, disc, len(kf), len(viol), len(self.incomplete), wall))
            try:
                for line in out:
                    print(line)
            except BrokenPipeError:
                pass
        self.lines = out
        self.viol, self.kf = viol, kf
        return code
