"""Self-test of the checkers (thorough tier): every rule must FIRE on a realistic breaking edit of /repo and stay
SILENT on a behaviour-preserving twin.  Mutants are text edits applied to a scratch copy of /repo/synapgrad under
$TMPDIR (removed immediately); the scratch copy is only parsed, never run.

A mutant whose anchor text no longer exists in the tree is reported as 'skipped' (the tree changed), not as a failure.
"""
import os, shutil, tempfile, sys, json
from concurrent.futures import ProcessPoolExecutor

HERE = os.path.dirname(os.path.abspath(__file__))


def load_catalogue():
    from sa import mutants
    return mutants.MUTANTS


def patch_variants(prop):
    """committed patch files used as regression variants of the self-test:
       /verif/twins/*/*.diff      behaviour-preserving refactorings written by independent sub-agents: every check must stay silent
       /verif/seeded/<id>/        property-breaking changes: the checks recorded in meta.json['detection']['reported_by'] must still report them"""
    import glob
    verif = os.path.dirname(HERE)
    out = []
    for f in sorted(glob.glob(os.path.join(verif, 'twins', '*', '*.diff'))):
        tid = 'twin:' + os.path.relpath(f, os.path.join(verif, 'twins'))[:-5]
        out.append(dict(id=tid, props=[prop] if prop else ALL_PROPS(), what='independent behaviour-preserving refactoring', patch=f, expect='silent'))
    for d in sorted(glob.glob(os.path.join(verif, 'seeded', '*'))):
        mf, pf = os.path.join(d, 'meta.json'), os.path.join(d, 'patch.diff')
        if not (os.path.exists(mf) and os.path.exists(pf)):
            continue
        m = json.load(open(mf))
        by = sorted(m.get('detection', {}).get('reported_by', {}))
        props = [p for p in by if prop is None or p == prop]
        if props:
            out.append(dict(id='seed:' + m['id'], props=props, what=(m.get('summary') or '')[:90], patch=pf, expect='fire', rules=None))
    return out


def ALL_PROPS():
    return sorted(f[:-3].upper() for f in os.listdir(os.path.join(HERE, 'props')) if f.startswith('c') and f[1:3].isdigit() and f.endswith('.py'))


def apply_mutant(mut, dst_repo):
    """returns True if applied"""
    if mut.get('patch'):
        import subprocess
        r = subprocess.run(['git', 'apply', '--unsafe-paths', '--directory=' + dst_repo, mut['patch']], capture_output=True, text=True, cwd=dst_repo)
        if r.returncode != 0:
            r = subprocess.run(['patch', '-p1', '-s', '-i', mut['patch']], capture_output=True, text=True, cwd=dst_repo)
        return r.returncode == 0
    for path, old, new in mut['edits']:
        p = os.path.join(dst_repo, path)
        if not os.path.exists(p):
            return False
        s = open(p).read()
        if s.count(old) != mut.get('count', 1):
            return False
        open(p, 'w').write(s.replace(old, new))
    return True


def _run_one(args):
    mut, props, src_repo = args
    sys.path.insert(0, os.path.dirname(HERE))
    os.environ['SA_NO_SELFTEST'] = '1'
    os.environ['SA_NORM_CACHE'] = '1'       # scratch copies share the normal forms of the files they leave unchanged (keyed by file content and normaliser sources)
    tmp = tempfile.mkdtemp(prefix='sa_mut_')
    evd = tempfile.mkdtemp(prefix='sa_ev_')
    os.environ['SA_EVIDENCE_DIR'] = evd
    try:
        shutil.copytree(os.path.join(src_repo, 'synapgrad'), os.path.join(tmp, 'synapgrad'), ignore=shutil.ignore_patterns('__pycache__'))
        if not apply_mutant(mut, tmp):
            return dict(id=mut['id'], status='skipped', why='anchor text not found / patch does not apply')
        import sa.report
        import sa.check
        sa.report.EVIDENCE_DIR = evd
        sa.check.EVIDENCE_DIR = evd
        from sa import opcat
        res = {}
        for prop in props:
            opcat._cache.clear()
            code, R = sa.check.run(prop, 'quick', repo=tmp, quiet=True, selftest=False)
            rules = sorted({o['rule'] for o in getattr(R, 'viol', [])})
            where = sorted({o['where'] for o in getattr(R, 'viol', [])})
            res[prop] = dict(code=code, rules=rules, where=where, incomplete=[list(x) for x in R.incomplete][:3])
        return dict(id=mut['id'], status='ran', results=res)
    except Exception as e:
        return dict(id=mut['id'], status='error', why='%s: %s' % (type(e).__name__, e))
    finally:
        shutil.rmtree(tmp, ignore_errors=True)
        shutil.rmtree(evd, ignore_errors=True)


def evaluate(mut, out):
    """-> (ok, message)"""
    if out['status'] == 'skipped':
        return None, 'skipped (%s)' % out['why']
    if out['status'] == 'error':
        return False, 'mutant %s: harness error %s' % (mut['id'], out['why'])
    msgs = []
    ok = True
    for prop, r in out['results'].items():
        if mut['expect'] == 'fire':
            want_rules = mut.get('rules')
            fired = r['code'] == 1 and (not want_rules or any(any(x.startswith(w) for w in want_rules) for x in r['rules']))
            if mut.get('accept_incomplete') and r['code'] == 2:
                fired = True
            if not fired:
                ok = False
                msgs.append('mutant %s (%s) NOT reported by %s: exit %d rules %s incomplete %s' % (mut['id'], mut['what'], prop, r['code'], r['rules'], r['incomplete']))
        else:
            if r['code'] != 0:
                ok = False
                msgs.append('behaviour-preserving twin %s (%s) is reported by %s: exit %d rules %s incomplete %s' % (mut['id'], mut['what'], prop, r['code'], r['rules'], r['incomplete']))
    return ok, '; '.join(msgs)


def run_for(prop=None, src_repo=None, only=None, jobs=16, patches=True):
    from sa.core import REPO
    src_repo = src_repo or REPO
    cat = list(load_catalogue())
    if patches and os.environ.get('SA_NO_PATCH_VARIANTS') != '1':
        cat += patch_variants(prop)
    work = []
    for m in cat:
        props = [p for p in m['props'] if prop is None or p == prop]
        if not props or (only and m['id'] not in only):
            continue
        work.append((m, props, src_repo))
    results = []
    if work:
        with ProcessPoolExecutor(max_workers=min(jobs, len(work))) as ex:
            results = list(ex.map(_run_one, work))
    failures, ran, skipped, fired, silent = [], 0, 0, 0, 0
    details = []
    for (m, props, _), out in zip(work, results):
        ok, msg = evaluate(m, out)
        if ok is None:
            skipped += 1
        else:
            ran += 1
            if ok:
                if m['expect'] == 'fire':
                    fired += 1
                else:
                    silent += 1
            else:
                failures.append(msg)
        details.append(dict(id=m['id'], expect=m['expect'], what=m['what'], outcome='skipped' if ok is None else ('ok' if ok else 'FAILED'),
                            results=out.get('results')))
    return dict(mutants=len(work), ran=ran, skipped=skipped, fired=fired, silent_twins=silent, failures=failures, details=details)


if __name__ == '__main__':
    sys.path.insert(0, os.path.dirname(HERE))
    prop = sys.argv[1] if len(sys.argv) > 1 and sys.argv[1] != 'all' else None
    only = set(sys.argv[2:]) or None
    r = run_for(prop, only=only)
    for d in r['details']:
        line = '%-8s %-7s %-45s %s' % (d['outcome'], d['expect'], d['id'], d['what'][:70])
        print(line)
        if d['outcome'] == 'FAILED' or only:
            print('     ', json.dumps(d['results']))
    print('mutants %d ran %d skipped %d fired %d silent twins %d failures %d' % (r['mutants'], r['ran'], r['skipped'], r['fired'], r['silent_twins'], len(r['failures'])))
    for f in r['failures']:
        print('FAIL', f)
    sys.exit(2 if r['failures'] else 0)
